#!/bin/sh
# Build the overlay virtualenv used by every check (offline, idempotent).
# /venv holds the repository's own interpreter + numpy; the overlay adds the
# solver wheels from the local wheelhouse without touching /venv.
set -e
V=/verif/.venv
if [ -x "$V/bin/python" ] && "$V/bin/python" -c "import z3, numpy, jsonschema" 2>/dev/null; then
    exit 0
fi
rm -rf "$V"
/venv/bin/python -m venv "$V"
SP=$("$V/bin/python" -c "import sysconfig; print(sysconfig.get_paths()['purelib'])")
echo "/venv/lib/python3.12/site-packages" > "$SP/_venv_overlay.pth"
PIP_NO_INDEX=1 "$V/bin/python" -m pip install -q --no-index --find-links /opt/veriftools/wheels z3-solver cvc5 jsonschema >/dev/null 2>&1 || \
PIP_NO_INDEX=1 "$V/bin/python" -m pip install --no-index --find-links /opt/veriftools/wheels z3-solver jsonschema
"$V/bin/python" -c "import z3, numpy; print('verif venv ok: z3', z3.get_version_string(), 'numpy', numpy.__version__)"
