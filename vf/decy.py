"""De-cythonizer: a small source-to-source front end that turns the kernel
``.pyx`` files of PySpike into executable Python with the *same statement
structure* (no Cython compiler is available in this sandbox).

What is removed: ``cimport`` lines, ``cdef`` declarations (initialisers are
kept as assignments), parameter / return types, ``nogil``, ``inline``.
What is added: typed-memoryview parameters and variables (``double[:]``) are
wrapped by ``_mv(...)`` so that an index outside ``0..len-1`` is *reported*
(the sources are compiled with boundscheck=False / wraparound=False, where
such an access is an out-of-bounds read, not Python wrap-around); ``double``
scalar parameters pass through ``_cd(...)`` (identity for symbolic values,
``numpy.float64`` for concrete replays = IEEE semantics of a C double).
``fabs/fmax/fmin`` and ``_mv/_cd`` are provided by the loader.
"""
import re

TYPES = r'(?:double\[:\]|double\[:,\s*:\]|double|int|long|bint|float)'


def decythonize(src):
    out = []
    lines = src.split('\n')
    i = 0
    mv_names = set()
    while i < len(lines):
        ln = lines[i]
        s = ln.strip()
        ind = ln[:len(ln) - len(ln.lstrip())]
        m = re.match(r'from\s+(pyspike\.\S+)\s+cimport\s+(.*)$', s)
        if m:
            out.append(ind + 'from %s import %s' % (m.group(1), m.group(2)))
            i += 1
            continue
        if re.match(r'(from\s+\S+\s+)?cimport\b', s):
            out.append(ind + '# [decy] ' + s)
            i += 1
            continue
        if re.match(r'def\b.*\(', s) or re.match(r'(cdef|cpdef)\b[^=]*\(', s):
            hdr = ln
            while not re.search(r':\s*(#.*)?$', hdr.split('\n')[-1]):
                i += 1
                hdr += '\n' + lines[i]
            # drop comments inside a multi-line header (they may contain types)
            hdr = '\n'.join(re.sub(r'#.*$', '', h) if k > 0 and not h.rstrip().endswith(':') else h
                            for k, h in enumerate(hdr.split('\n')))
            mvs = re.findall(r'double\[:\]\s+(\w+)', hdr)
            dbl = re.findall(r'(?<![\w\[])double\s+(\w+)\s*(?:=[^,)]*)?\s*[,)]', hdr)
            h = re.sub(r'^(\s*)(cdef|cpdef)\s+(inline\s+)?' + TYPES + r'\s+(\w+)\s*\(',
                       r'\1def \4(', hdr)
            h = re.sub(r'\)\s*nogil\s*:', '):', h)

            def strip_params(mm):
                return re.sub(TYPES + r'\s+(?=\w)', '', mm.group(0))
            h = re.sub(r'\((.|\n)*\)', strip_params, h)
            out.append(h)
            body_ind = ind + '    '
            fname = re.search(r'def\s+(\w+)', h).group(1)
            mv_names = set(mvs)
            for nme in mvs:
                out.append(body_ind + '%s = _mv(%s)' % (nme, nme))
            for nme in dbl:
                if nme != fname:
                    out.append(body_ind + '%s = _cd(%s)' % (nme, nme))
            i += 1
            continue
        m = re.match(r'cdef\s+(' + TYPES + r')\s+(.*)$', s)
        if m:
            typ, rest = m.group(1), m.group(2)
            is_mv = typ.startswith('double[')
            if '=' in rest:
                name, expr = rest.split('=', 1)
                name = name.strip()
                expr = re.sub(r'\s+#.*$', '', expr.strip())
                if is_mv:
                    mv_names.add(name)
                    out.append(ind + '%s = _mv(%s)' % (name, expr))
                else:
                    out.append(ind + '%s = %s' % (name, expr))
            else:
                if is_mv:
                    for nme in rest.split(','):
                        mv_names.add(nme.strip())
                out.append(ind + '# [decy] decl ' + rest)
            i += 1
            continue
        if re.match(r'with\s+nogil\s*:', s):
            out.append(ind + 'if True:  # [decy] nogil')
            i += 1
            continue
        m = re.match(r'(\w+)\s*=\s*(np\.\w+\(.*\))\s*(#.*)?$', s)
        if m and m.group(1) in mv_names:
            out.append(ind + '%s = _mv(%s)' % (m.group(1), m.group(2)))
            i += 1
            continue
        ln = re.sub(r'\bxrange\b', 'range', ln)
        out.append(ln)
        i += 1
    return '\n'.join(out)


if __name__ == '__main__':
    import sys
    print(decythonize(open(sys.argv[1]).read()))
