"""Path-enumerating symbolic executor over z3 Reals.

The *real* PySpike code is executed by CPython; its floating point inputs are
replaced by `Sym` objects (wrapping z3 Real terms) stored in numpy
``dtype=object`` arrays.  Every ``if``/``while`` on symbolic data reaches
``SymBool.__bool__`` which asks the solver which outcomes are feasible under the
current path condition and explores all feasible ones (depth first, by
re-execution with a recorded decision prefix).  Proof obligations are decided by
a fresh (non-incremental) solver per path: ``unsat`` = holds for all reals on
the path, ``sat`` = counterexample (to be replayed on the untouched code),
``unknown`` = inconclusive.

The same harness programs also run in *concrete* mode (`ConcreteEngine`), with
plain floats and no shim, which is how counterexamples are replayed and how
explored paths are validated against the implementation.
"""
import fractions
import math
import time

import numpy as _np
import z3

Fraction = fractions.Fraction


class PathAbort(BaseException):
    """Raised to abandon an infeasible path (BaseException: the code under
    test may contain bare ``except:`` / ``except Exception`` clauses)."""


class Inconclusive(BaseException):
    """Solver answered unknown on a branch feasibility query."""


import os as _os
_PROFILE = bool(_os.environ.get("VERIF_PROFILE"))
ENG = None          # the engine currently executing (symbolic or concrete)
FORK_MINMAX = [False]   # True: max/min/abs fork instead of building If-terms

_R = z3.RealSort()


def set_engine(e):
    global ENG
    ENG = e


def tz(x):
    """python number / Sym -> z3 Real term (exact: floats become rationals)."""
    if isinstance(x, Sym):
        return x.z
    if isinstance(x, (bool, _np.bool_)):
        return z3.RealVal(int(x))
    if isinstance(x, (int, _np.integer)):
        return z3.RealVal(int(x))
    if isinstance(x, (float, _np.floating)):
        f = float(x)
        if math.isnan(f) or math.isinf(f):
            return None
        return z3.RealVal(str(_intended_rational(f)))
    if isinstance(x, Fraction):
        return z3.RealVal(str(x))
    raise TypeError("cannot convert %r to a real term" % (type(x),))


_rat_cache = {}


def _intended_rational(f):
    """A float constant computed by the code under test (0.5, 1e-6, 1.0/3)
    stands for the simplest rational that rounds to it (denominator <= 1e9),
    else for its exact binary value.  Rounding of such constants is float
    noise, which is outside the claim."""
    r = _rat_cache.get(f)
    if r is None:
        exact = Fraction(f)
        g = exact.limit_denominator(10 ** 9)
        r = g if float(g) == f else exact
        _rat_cache[f] = r
    return r


def _num(o):
    return isinstance(o, (Sym, int, float, _np.integer, _np.floating,
                          Fraction, bool, _np.bool_))


class SymBool(object):
    __slots__ = ("z",)

    def __init__(self, z_):
        self.z = z_

    def __bool__(self):
        return ENG.branch(self.z)

    def _o(self, o):
        if isinstance(o, SymBool):
            return o.z
        return z3.BoolVal(bool(o))

    def __and__(self, o):
        return SymBool(z3.And(self.z, self._o(o)))

    __rand__ = __and__

    def __or__(self, o):
        return SymBool(z3.Or(self.z, self._o(o)))

    __ror__ = __or__

    def __invert__(self):
        return SymBool(z3.Not(self.z))

    def __repr__(self):
        return "SymBool(#%d)" % self.z.get_id()


def sand(*a):
    """conjunction of python bools / SymBools without forking"""
    zs = []
    for x in a:
        if isinstance(x, SymBool):
            zs.append(x.z)
        elif not x:
            return False
    if not zs:
        return True
    return SymBool(z3.And(*zs)) if len(zs) > 1 else SymBool(zs[0])


def sor(*a):
    zs = []
    for x in a:
        if isinstance(x, SymBool):
            zs.append(x.z)
        elif x:
            return True
    if not zs:
        return False
    return SymBool(z3.Or(*zs)) if len(zs) > 1 else SymBool(zs[0])


def snot(a):
    if isinstance(a, SymBool):
        return SymBool(z3.Not(a.z))
    return not a


def simplies(a, b):
    return sor(snot(a), b)


class Sym(object):
    """A symbolic real.  ``z is None`` is the *poison* value: the abstraction of
    a non-finite IEEE result (x/0, nan) - it propagates through arithmetic and
    every comparison with it is false."""
    __slots__ = ("z",)
    __hash__ = None

    def __init__(self, z_):
        self.z = z_

    # -- arithmetic ---------------------------------------------------
    def _bin(self, o, f):
        if not _num(o):
            return NotImplemented
        if self.z is None:
            return POISON
        b = tz(o)
        if b is None:
            return POISON
        return Sym(f(self.z, b))

    def _rbin(self, o, f):
        if not _num(o):
            return NotImplemented
        if self.z is None:
            return POISON
        a = tz(o)
        if a is None:
            return POISON
        return Sym(f(a, self.z))

    def __add__(self, o):
        return self._bin(o, lambda a, b: a + b)

    def __radd__(self, o):
        return self._rbin(o, lambda a, b: a + b)

    def __sub__(self, o):
        return self._bin(o, lambda a, b: a - b)

    def __rsub__(self, o):
        return self._rbin(o, lambda a, b: a - b)

    def __mul__(self, o):
        return self._bin(o, lambda a, b: a * b)

    def __rmul__(self, o):
        return self._rbin(o, lambda a, b: a * b)

    def __neg__(self):
        return POISON if self.z is None else Sym(-self.z)

    def __pos__(self):
        return self

    def __truediv__(self, o):
        if not _num(o):
            return NotImplemented
        d = tz(o)
        if self.z is None or d is None:
            return POISON
        if _zero_possible(d):
            ENG.note_divzero()
            return POISON
        return Sym(self.z / d)

    def __rtruediv__(self, o):
        if not _num(o):
            return NotImplemented
        a = tz(o)
        if self.z is None or a is None:
            return POISON
        if _zero_possible(self.z):
            ENG.note_divzero()
            return POISON
        return Sym(a / self.z)

    def __abs__(self):
        if self.z is None:
            return POISON
        if FORK_MINMAX[0]:
            return self if ENG.branch(self.z >= 0) else Sym(-self.z)
        return Sym(z3.If(self.z >= 0, self.z, -self.z))

    def sqrt(self):
        """np.sqrt(object) dispatches here: fresh r >= 0 with r*r == x."""
        if self.z is None:
            return POISON
        return ENG.sqrt_of(self)

    # -- comparisons ---------------------------------------------------
    def _cmp(self, o, f):
        if isinstance(o, (list, tuple)):
            # `[t0, t1] >= x0` in the code under test: numpy scalars broadcast
            # over the sequence; do the same element-wise
            r = _np.empty(len(o), dtype=object)
            for i, e in enumerate(o):
                r[i] = self._cmp(e, f)
            return r
        if not _num(o):
            return NotImplemented
        b = tz(o)
        if self.z is None or b is None:
            ENG.note_poison_compare()
            return SymBool(z3.BoolVal(False))
        return SymBool(f(self.z, b))

    def __lt__(self, o):
        return self._cmp(o, lambda a, b: a < b)

    def __le__(self, o):
        return self._cmp(o, lambda a, b: a <= b)

    def __gt__(self, o):
        return self._cmp(o, lambda a, b: a > b)

    def __ge__(self, o):
        return self._cmp(o, lambda a, b: a >= b)

    def __eq__(self, o):
        return self._cmp(o, lambda a, b: a == b)

    def __ne__(self, o):
        if not _num(o):
            return NotImplemented
        b = tz(o)
        if self.z is None or b is None:
            ENG.note_poison_compare()
            return SymBool(z3.BoolVal(True))
        return SymBool(self.z != b)

    def __float__(self):
        raise TypeError("float() of a symbolic value")

    def __int__(self):
        return ENG.int_of(self)

    def __repr__(self):
        # cheap on purpose: the code under test prints values in places
        # (PieceWiseLinFunc.integral) and z3's pretty printer is slow on big terms
        return "Sym(poison)" if self.z is None else "Sym(#%d)" % self.z.get_id()


POISON = Sym(None)


def _zero_possible(d):
    """fork on `d == 0`; a product is zero iff one of its factors is, which
    keeps the feasibility queries linear (the incremental solver is weak on
    non-linear arithmetic)"""
    if z3.is_app(d) and d.decl().kind() == z3.Z3_OP_MUL:
        for f in d.children():
            if z3.is_rational_value(f):
                if f.numerator_as_long() == 0:
                    return True
                continue
            if _zero_possible(f):
                return True
        return False
    return ENG.branch(d == 0)


def is_poison(x):
    if isinstance(x, Sym):
        return x.z is None
    if isinstance(x, (float, _np.floating)):
        return math.isnan(x) or math.isinf(x)
    return False


def is_sym(x):
    return isinstance(x, Sym)


# -- max / min (python builtins semantics: first maximal element wins) ------
def _flat(a):
    if len(a) == 1:
        a = list(a[0])
    return list(a)


def smax(*a):
    a = _flat(a)
    r = a[0]
    for x in a[1:]:
        if not (isinstance(r, Sym) or isinstance(x, Sym)):
            r = max(r, x)
            continue
        if is_poison(r) or is_poison(x):
            r = POISON
        elif FORK_MINMAX[0]:
            if ENG.branch(tz(x) > tz(r)):
                r = x
        else:
            r = Sym(_zmax(tz(x), tz(r)))
    return r


def _swap(a, b):
    """deterministic structural ordering (term ids are not stable across
    re-executions of a path, structural hashes and s-expressions are)"""
    ha, hb = a.hash(), b.hash()
    if ha != hb:
        return ha > hb
    return a.sexpr() > b.sexpr()


def _zmax(a, b):
    """canonical max term: independent of the argument order, so that
    max(a, b) written in one kernel and max(b, a) in its duplicate are the
    same term (real max is symmetric)"""
    if _swap(a, b):
        a, b = b, a
    return z3.If(a >= b, a, b)


def _zmin(a, b):
    if _swap(a, b):
        a, b = b, a
    return z3.If(a <= b, a, b)


def smin(*a):
    a = _flat(a)
    r = a[0]
    for x in a[1:]:
        if not (isinstance(r, Sym) or isinstance(x, Sym)):
            r = min(r, x)
            continue
        if is_poison(r) or is_poison(x):
            r = POISON
        elif FORK_MINMAX[0]:
            if ENG.branch(tz(x) < tz(r)):
                r = x
        else:
            r = Sym(_zmin(tz(x), tz(r)))
    return r


def sabs(x):
    return abs(x)


# C math library semantics (fmax/fmin ignore a NaN argument)
def c_fmax(a, b):
    if is_poison(a):
        return b
    if is_poison(b):
        return a
    return smax(a, b)


def c_fmin(a, b):
    if is_poison(a):
        return b
    if is_poison(b):
        return a
    return smin(a, b)


def c_fabs(a):
    return abs(a)


class Obligation(object):
    __slots__ = ("tag", "z", "exempt")

    def __init__(self, tag, z_, exempt=None):
        self.tag = tag
        self.z = z_
        self.exempt = exempt


class Engine(object):
    """symbolic mode"""
    mode = "sym"

    def __init__(self, obl_timeout_ms=30000, max_paths=None, seed=0,
                 int_bound=8):
        self.solver = z3.Solver()
        self.obl_timeout_ms = obl_timeout_ms
        self.max_paths = max_paths
        self.int_bound = int_bound
        # statistics
        self.nq = 0            # feasibility queries
        self.tq = 0.0
        self.nobl_q = 0        # obligation queries
        self.tobl = 0.0
        self.paths = 0
        self.aborted = 0
        self.decisions = 0
        self.obligations = 0
        self.discharged = 0
        self.trivial = 0
        self.unknown = []      # (tag, inputs-snapshot)
        self.cex = []          # dicts
        self.divzero = 0
        self.poison_compares = 0
        self.cache_hits = 0
        self.truncated = False
        self.samples = []
        self.path_records = []   # for trace validation: (model inputs, observed)
        self.keep_records = 0
        self.exceptions = 0
        self.failed_obligations = 0
        self._known_seen = set()
        self.known = []          # known-finding entries for this property/config
        self.max_cex = None
        self.deadline = None
        self.t_start = time.time()
        self.max_failures = 300
        self.stopped_on_failures = False
        self.slow_budget_s = 600.0
        self.slow_spent = 0.0
        self.seed = seed
        self.cvc5 = {}
        self.cvc5_budget = 12      # queries per job
        self.cvc5_every = 7
        self.split_forks = None   # stop at the k-th genuine fork and emit shards
        self.shards = []
        self.cex_per_tag = {}
        self.batch_timeout_ms = 300
        self._reset_path()

    # ---- per path state ---------------------------------------------
    def _reset_path(self):
        self.prefix = []
        self.pos = 0
        self.trace = []
        self.lit = {}
        self.keep = []
        self.model = None
        self.inputs = []        # [(name, z3 const)]
        self.pending = []       # obligations of this path
        self.observed = []      # (name, value)
        self.side = []          # side conditions (sqrt), asserted as assumptions
        self._sqrt_cache = {}
        self.path_div0 = 0
        self.p_obl = 0
        self.p_dis = 0
        self.p_triv = 0

    def note_divzero(self):
        self.divzero += 1
        self.path_div0 += 1

    def note_poison_compare(self):
        self.poison_compares += 1

    # ---- inputs -----------------------------------------------------
    def fresh(self, name, integer=False):
        v = z3.Real(name)
        self.inputs.append((name, v))
        if integer:
            self.solver.add(z3.IsInt(v))
            self.model = None
            if not hasattr(self, "_int_inputs"):
                self._int_inputs = set()
            self._int_inputs.add(name)
        return Sym(v)

    def const(self, x):
        return x

    def sqrt_of(self, s):
        # structural key (a term id would not survive garbage collection of the
        # simplified term): equal polynomials get the same root symbol
        k0 = s.z.sexpr()       # same Python operations in the same order -> same raw term
        if k0 in self._sqrt_cache:
            return self._sqrt_cache[k0]
        k = z3.simplify(s.z, som=True, sort_sums=True).sexpr()
        if k in self._sqrt_cache:
            self._sqrt_cache[k0] = self._sqrt_cache[k]
            return self._sqrt_cache[k]
        r = z3.Real("sqrt!%d" % len(self._sqrt_cache))
        # path exploration only knows r >= 0 (keeps the feasibility queries
        # linear: an over-approximation of the feasible paths); the defining
        # equation is added to every obligation query of the path
        self.solver.add(r >= 0)
        self.side.append(r * r == s.z)
        self.keep.append(s.z)
        self.model = None
        res = Sym(r)
        self._sqrt_cache[k] = res
        self._sqrt_cache[k0] = res
        return res

    def int_of(self, s):
        """int(Sym): fork over the feasible truncations within +-int_bound."""
        if s.z is None:
            raise ValueError("int() of non-finite value")
        for k in range(0, self.int_bound + 1):
            if self.branch(z3.And(s.z >= k, s.z < k + 1)):
                return k
        for k in range(1, self.int_bound + 1):
            if self.branch(z3.And(s.z <= -k, s.z > -k - 1)):
                return -k
        self.truncated = True
        raise PathAbort()

    # ---- solver plumbing -------------------------------------------
    def _check(self, *extra):
        t = time.time()
        r = self.solver.check(*extra)
        self.tq += time.time() - t
        self.nq += 1
        return r

    def branch(self, cond):
        # The decision sequence must be identical on every re-execution of a
        # path prefix.  z3.simplify orders commutative arguments by term id,
        # which is not stable across re-executions, so the *unsimplified* term
        # (built by the same Python operations in the same order, hence
        # structurally identical) is the key; simplify is only used to
        # recognise trivially true/false conditions.
        c = cond
        neg = False
        while z3.is_not(c):
            c = c.arg(0)
            neg = not neg
        cs = z3.simplify(c)
        if z3.is_true(cs):
            return not neg
        if z3.is_false(cs):
            return neg
        k = c.get_id()
        if k in self.lit:
            self.cache_hits += 1
            return self.lit[k] != neg
        self.decisions += 1
        if self.pos < len(self.prefix):
            v, h = self.prefix[self.pos]
            if h != c.hash():
                raise Inconclusive("re-execution diverged from the recorded decision prefix")
            self.pos += 1
            self.trace.append((v, h))
            self.solver.add(c if v else z3.Not(c))
            self.lit[k] = v
            self.keep.append(c)
            self.model = None
            return v != neg
        if self.model is None:
            r = self._check()
            if r == z3.unknown:
                raise Inconclusive("unknown on path condition")
            if r != z3.sat:
                raise PathAbort()
            self.model = self.solver.model()
        g = self.model.eval(c, model_completion=True)
        if z3.is_true(g):
            guess = True
        elif z3.is_false(g):
            guess = False
        else:
            guess = None
        model_other = None
        if guess is None:
            rt = self._check(c)
            rf = self._check(z3.Not(c))
            self.model = None
        else:
            other = z3.Not(c) if guess else c
            ro = self._check(other)
            if ro == z3.sat:
                model_other = self.solver.model()
            rt, rf = (z3.sat, ro) if guess else (ro, z3.sat)
        if rt == z3.unknown or rf == z3.unknown:
            raise Inconclusive("unknown in branch: %s" % c)
        if rt == z3.sat and rf == z3.sat:
            if self.split_forks is not None and self.nforks >= self.split_forks:
                self.shards.append((list(self.trace), self.nforks))
                raise PathAbort()
            self.nforks += 1
            self.work.append((self.trace + [(False, c.hash())], self.nforks))
            v = True
            if guess is False:
                self.model = model_other
        elif rt == z3.sat:
            v = True
        elif rf == z3.sat:
            v = False
        else:
            raise PathAbort()
        self.pos += 1
        self.prefix.append((v, c.hash()))
        self.trace.append((v, c.hash()))
        self.solver.add(c if v else z3.Not(c))
        self.lit[k] = v
        self.keep.append(c)
        return v != neg

    def assume(self, cond):
        if isinstance(cond, SymBool):
            cond = cond.z
        elif isinstance(cond, (bool, _np.bool_)):
            if not cond:
                raise PathAbort()
            return
        self.solver.add(cond)
        self.model = None

    # comparisons usable in both modes --------------------------------
    def eq(self, a, b):
        if is_poison(a) or is_poison(b):
            return False
        if isinstance(a, Sym) or isinstance(b, Sym):
            return SymBool(tz(a) == tz(b))
        return a == b

    def le(self, a, b):
        if is_poison(a) or is_poison(b):
            return False
        if isinstance(a, Sym) or isinstance(b, Sym):
            return SymBool(tz(a) <= tz(b))
        return a <= b

    def lt(self, a, b):
        if is_poison(a) or is_poison(b):
            return False
        if isinstance(a, Sym) or isinstance(b, Sym):
            return SymBool(tz(a) < tz(b))
        return a < b

    def finite(self, a):
        return not is_poison(a) and a is not None

    def eq_abs(self, a, b, atoms):
        """a == b with the given symbolic values (e.g. the entries of a
        profile) replaced by fresh variables on both sides: an aggregation
        identity such as `distance * T == sum(values * lengths)` does not
        depend on what the values are, and without their (rational) definitions
        it is a small polynomial identity.  Sound: the abstraction only forgets
        facts."""
        if is_poison(a) or is_poison(b):
            return False
        if not (isinstance(a, Sym) or isinstance(b, Sym)):
            return a == b
        eqn = tz(a) == tz(b)
        subs = []
        seen = set()
        for i, t in enumerate(atoms):
            if isinstance(t, Sym) and t.z is not None and not z3.is_rational_value(t.z) \
                    and not z3.is_const(t.z) and t.z.get_id() not in seen:
                seen.add(t.z.get_id())
                subs.append((t.z, z3.Real("abs!%d" % i)))
        # larger terms first so that a value is not split by the replacement of a sub-term
        subs.sort(key=lambda p: -len(p[0].sexpr()))
        for old, new in subs:
            eqn = z3.substitute(eqn, (old, new))
        return SymBool(eqn)

    # ---- known findings ----------------------------------------------
    def _regions_for(self, tag):
        """[(id, z3 bool)] of the known-finding regions that apply to an
        obligation with this tag on the current path"""
        import re as _re
        out = []
        for k in self.known:
            if not _re.search(k["tag"], tag):
                continue
            ns = dict((n, Sym(v)) for n, v in self.inputs)
            ns.update(smax=smax, smin=smin, abs=abs)
            try:
                r = eval(k["region"], {"__builtins__": {}}, ns)
            except NameError:
                continue
            if isinstance(r, SymBool):
                out.append((k["id"], r.z))
            elif r:
                out.append((k["id"], z3.BoolVal(True)))
        return out

    # ---- obligations ------------------------------------------------
    def prove(self, cond, tag, exempt=None):
        """Register a proof obligation for this path.  python bools are decided
        at once (and returned); symbolic ones are decided at the end of the
        path by a fresh solver.  `exempt`: a condition (known-finding region)
        under which the obligation is not required."""
        self.p_obl += 1
        if isinstance(cond, (bool, _np.bool_)):
            if cond:
                self.p_dis += 1
                self.p_triv += 1
                return True
            self.pending.append(Obligation(tag, z3.BoolVal(False), None))
            return False
        if not isinstance(cond, SymBool):
            raise TypeError("prove() needs bool or SymBool, got %r" % (cond,))
        self.pending.append(Obligation(tag, cond.z, None))
        return True

    def observe(self, name, value):
        self.observed.append((name, value))

    def _path_model(self):
        r = self._check()
        if r == z3.sat:
            return self.solver.model()
        return None

    def _inputs_of(self, model):
        out = {}
        if model is None:
            return out
        for name, v in self.inputs:
            val = model.eval(v, model_completion=True)
            out[name] = _val_to_fraction(val)
        return out

    def _cex_wanted(self, tag):
        n = self.cex_per_tag.get(tag, 0)
        self.cex_per_tag[tag] = n + 1
        return n < 4

    def _record_cex(self, tag, model, known=None):
        if known is None and self.cex_per_tag.get(tag, 0) > 4:
            self.cex_overflow = getattr(self, "cex_overflow", 0) + 1
            return
        if len(self.cex) < 400:
            self.cex.append(dict(tag=tag, inputs={k: str(v) for k, v in
                                                  self._inputs_of(model).items()},
                                 trace=len(self.trace), known=known))
        else:
            self.cex_overflow = getattr(self, "cex_overflow", 0) + 1

    def _fresh_solver(self, timeout_ms=None):
        s = z3.Solver()
        s.set("timeout", timeout_ms or self.obl_timeout_ms)
        s.add(self.solver.assertions())
        if self.side:
            s.add(self.side)
        return s

    def _nice_model(self, negs):
        """try for a counterexample on a dyadic lattice so that float64
        follows the same path exactly"""
        for denom, lim, to in ((8, 64, 2000), (64, 4096, 3000)):
            s = self._fresh_solver(to)
            s.add(negs)
            for i, (name, v) in enumerate(self.inputs):
                k = z3.Int("k!%d" % i)
                s.add(v * denom == z3.ToReal(k), k >= -lim, k <= lim)
            if s.check() == z3.sat:
                return s.model()
        return None

    def _decide_pending(self):
        pend = self.pending
        self.pending = []
        self.obligations += self.p_obl
        self.discharged += self.p_dis
        self.trivial += self.p_triv
        if not pend:
            return
        t0 = time.time()
        todo = []
        for ob in pend:
            need = ob.z
            if self.known:
                regs = self._regions_for(ob.tag)
                if regs:
                    need = z3.Or(ob.z, *[r for _, r in regs])
                    # the listed finding itself: is it still there?
                    for kid, rz in regs:
                        if kid in self._known_seen:
                            continue
                        sk = self._fresh_solver()
                        sk.add(rz, z3.Not(ob.z))
                        self.nobl_q += 1
                        if sk.check() == z3.sat:
                            nm = self._nice_model(z3.And(rz, z3.Not(ob.z)))
                            self._record_cex(ob.tag, nm if nm is not None else sk.model(),
                                             known=kid)
                            self._known_seen.add(kid)
            neg = z3.simplify(z3.Not(need))
            if z3.is_false(neg):
                self.discharged += 1
                self.trivial += 1
            else:
                todo.append((ob, neg))
        # 1. one batched query with a short timeout
        if len(todo) > 1:
            s = self._fresh_solver(min(self.batch_timeout_ms, self.obl_timeout_ms))
            s.add(z3.Or(*[n for _, n in todo]))
            _t = time.time()
            r = s.check()
            self.nobl_q += 1
            if _PROFILE and time.time() - _t > 1.0:
                print("  slow batch %.1fs %s: %s" % (time.time() - _t, r,
                      sorted(set(ob.tag for ob, _ in todo))), flush=True)
            if r == z3.unsat:
                self.discharged += len(todo)
                todo = []
        # 2. one by one; 3. case split on if-then-else conditions
        for ob, n in todo:
            # a job whose hard obligations have already consumed the budget gives the remaining
            # ones 2 s each (a broken tree can make hundreds of obligations hard at once; the
            # verdict is then inconclusive or a violation anyway)
            exhausted = self.slow_spent > self.slow_budget_s
            s = self._fresh_solver(2000 if exhausted else min(10000, self.obl_timeout_ms))
            s.add(n)
            _t = time.time()
            r = s.check()
            self.nobl_q += 1
            m = s.model() if r == z3.sat else None
            if r == z3.unknown and not exhausted:
                r, m = self._split_ite(n, [], [time.time() + 4 * self.obl_timeout_ms / 1000.0])
            if time.time() - _t > 2.0:
                self.slow_spent += time.time() - _t
            if _PROFILE and time.time() - _t > 1.0:
                print("  slow obligation %.1fs %s: %s" % (time.time() - _t, r, ob.tag), flush=True)
            if r == z3.unsat:
                self.discharged += 1
                self._second_opinion(n)
            elif r == z3.sat:
                self.failed_obligations += 1
                nm = self._nice_model(n) if self._cex_wanted(ob.tag) else None
                self._record_cex(ob.tag, nm if nm is not None else m)
            else:
                self.unknown.append(dict(tag=ob.tag, trace=len(self.trace)))
                dd = _os.environ.get("VERIF_DUMP_UNKNOWN")
                if dd:
                    sd = self._fresh_solver()
                    sd.add(n)
                    with open(_os.path.join(dd, "unk_%d_%d.smt2" % (_os.getpid(), len(self.unknown))), "w") as fh:
                        fh.write(sd.to_smt2())
        self.tobl += time.time() - t0

    def _second_opinion(self, neg):
        """a seeded sample of the obligations z3 discharged is re-decided by cvc5"""
        self._so_seen = getattr(self, "_so_seen", 0) + 1
        if self.cvc5_budget <= 0 or (self._so_seen * 2654435761 + self.seed) % self.cvc5_every != 0:
            return
        self.cvc5_budget -= 1
        sd = self._fresh_solver()
        sd.add(neg)
        r = cvc5_check(sd.to_smt2())
        if r is None:
            return
        self.cvc5[r] = self.cvc5.get(r, 0) + 1
        if r == "sat":
            self.unknown.append(dict(tag="solver disagreement: z3 unsat, cvc5 sat", trace=len(self.trace)))

    def _split_ite(self, neg, lits, deadline):
        """decide PC /\\ lits /\\ neg by case analysis on the conditions of the
        if-then-else terms in neg (max/min/abs), so that every leaf query is
        free of them.  returns (result, model)"""
        self.ite_splits = getattr(self, "ite_splits", 0) + 1
        if time.time() > deadline[0]:
            return z3.unknown, None
        c = _first_ite_cond(neg)
        if c is None:
            s = self._fresh_solver()
            s.add(lits)
            s.add(neg)
            r = s.check()
            self.nobl_q += 1
            return r, (s.model() if r == z3.sat else None)
        for val in (True, False):
            lit = c if val else z3.Not(c)
            s = self._fresh_solver(5000)
            s.add(lits)
            s.add(lit)
            self.nobl_q += 1
            if s.check() == z3.unsat:
                continue
            n2 = z3.simplify(z3.substitute(neg, (c, z3.BoolVal(val))))
            if z3.is_false(n2):
                continue
            r, m = self._split_ite(n2, lits + [lit], deadline)
            if r != z3.unsat:
                return r, m
        return z3.unsat, None

    # ---- exploration ------------------------------------------------
    def explore(self, fn, prefixes=None):
        """run fn(self) over all feasible paths (optionally only those that
        start with one of the given decision prefixes)"""
        self.work = [(list(p), 0) for p in prefixes] if prefixes else [([], 0)]
        if prefixes:
            self.split_forks = None
        while self.work:
            if self.max_paths is not None and self.paths >= self.max_paths:
                self.truncated = True
                break
            if self.max_cex is not None and len(self.cex) >= self.max_cex:
                break
            if self.deadline is not None and time.time() > self.deadline:
                self.truncated = True      # reported as inconclusive unless a counterexample was found
                break
            nf = self.failed_obligations + self.exceptions
            if nf >= self.max_failures or (nf >= 10 and time.time() - self.t_start > 120):
                self.stopped_on_failures = True     # the verdict of this job is established
                break
            pfx, nf = self.work.pop()
            self._reset_path()
            self.prefix = pfx
            self.nforks = nf
            self.solver.push()
            try:
                try:
                    fn(self)
                except PathAbort:
                    self.aborted += 1
                    self.pending = []
                    continue
                except Inconclusive as e:
                    self.unknown.append(dict(tag="branch:" + str(e)[:80],
                                             trace=len(self.trace)))
                    continue
                except Exception as e:     # the code under test raised
                    self.exceptions += 1
                    self.obligations += 1
                    import traceback
                    tb = traceback.extract_tb(e.__traceback__)
                    where = ""
                    for fr in reversed(tb):
                        if "/vf/" not in fr.filename:
                            where = "%s:%d" % (fr.filename.split("/")[-1], fr.lineno)
                            break
                    tag = "exception:%s@%s" % (type(e).__name__, where)
                    regs = self._regions_for(tag) if self.known else []
                    if regs:
                        for kid, rz in regs:
                            sk = self._fresh_solver()
                            sk.add(rz)
                            if kid not in self._known_seen and sk.check() == z3.sat:
                                nm = self._nice_model(rz)
                                self._record_cex(tag, nm if nm is not None else sk.model(), known=kid)
                                self.cex[-1]["message"] = str(e)[:200]
                                self._known_seen.add(kid)
                        outside = z3.Not(z3.Or(*[r for _, r in regs]))
                        sk = self._fresh_solver()
                        sk.add(outside)
                        r = sk.check()
                        if r == z3.unsat:
                            self.discharged += 1
                            continue
                        if r == z3.sat:
                            nm = self._nice_model(outside)
                            self._record_cex(tag, nm if nm is not None else sk.model())
                        else:
                            self.unknown.append(dict(tag=tag, trace=len(self.trace)))
                            continue
                    else:
                        self._record_cex(tag, self._path_model())
                    self.cex[-1]["message"] = str(e)[:200]
                    continue
                self.paths += 1
                self._decide_pending()
                self._after_path()
            finally:
                self.solver.pop()

    def _after_path(self):
        if len(self.samples) < 3 or (self.keep_records and
                                     len(self.path_records) < self.keep_records):
            m = self._nice_path_model()
            if m is None:
                return
            ins = self._inputs_of(m)
            obs = []
            for name, v in self.observed:
                obs.append((name, _eval_obs(m, v)))
            rec = dict(inputs={k: str(v) for k, v in ins.items()}, observed=obs,
                       decisions=len(self.trace))
            if len(self.samples) < 3:
                self.samples.append(dict(inputs={k: float(v) for k, v in ins.items()},
                                         decisions=len(self.trace),
                                         outputs=[(n, _short(o)) for n, o in obs[:6]]))
            if self.keep_records and len(self.path_records) < self.keep_records:
                self.path_records.append(rec)

    def _nice_path_model(self):
        """a model of the path on a dyadic lattice (float64 then follows the
        same path exactly); generic values are preferred (non-integer,
        pairwise distinct as far as the path allows) so that float replays do
        not degenerate to all-zero inputs"""
        ints = getattr(self, "_int_inputs", set())
        if self.side:
            # the path depends on an algebraic quantity (sqrt): no lattice model
            # exists in general and the mixed integer/non-linear search is slow;
            # such paths are not float-validated
            return None
        for denom, lim, to in ((16, 1024, 2000), (1024, 1 << 20, 3000)):
            for level in (2, 1, 0):
                s = self._fresh_solver(to)
                ks = []
                for i, (name, v) in enumerate(self.inputs):
                    k = z3.Int("k!%d" % i)
                    ks.append(k)
                    s.add(v * denom == z3.ToReal(k), k >= -lim, k <= lim)
                    if level >= 1 and name not in ints:
                        s.add(k % denom != 0)
                    if level >= 1 and name in ints:
                        # integer-typed data: alternate parity, so that means and halves of neighbouring
                        # values are not integers (integer truncation in the float code becomes visible)
                        s.add(k % (2 * denom) == (denom if i % 2 else 0))
                if level >= 2 and len(ks) > 1:
                    s.add(z3.Distinct(*ks))
                if s.check() == z3.sat:
                    return s.model()
        return None

    def stats(self):
        return dict(paths=self.paths, aborted=self.aborted,
                    decisions=self.decisions, obligations=self.obligations,
                    discharged=self.discharged, trivial=self.trivial,
                    unknown=len(self.unknown), cex=len(self.cex),
                    cvc5_unsat=self.cvc5.get("unsat", 0), cvc5_unknown=self.cvc5.get("unknown", 0),
                    cvc5_sat=self.cvc5.get("sat", 0),
                    failed_obligations=self.failed_obligations, shards=len(self.shards),
                    feas_queries=self.nq, feas_s=round(self.tq, 3),
                    obl_queries=self.nobl_q, obl_s=round(self.tobl, 3),
                    divzero_forks=self.divzero, exceptions=self.exceptions,
                    poison_compares=self.poison_compares,
                    truncated=self.truncated)


def cvc5_check(text, ms=2000):
    """second opinion on one SMT-LIB2 query (cvc5 Python API); returns
    'sat' / 'unsat' / 'unknown' / None (cvc5 unavailable)"""
    try:
        import cvc5
    except Exception:
        return None
    try:
        slv = cvc5.Solver()
        slv.setOption("tlimit-per", str(ms))
        sm = cvc5.SymbolManager(slv)
        p = cvc5.InputParser(slv, sm)
        p.setStringInput(cvc5.InputLanguage.SMT_LIB_2_6, "(set-logic ALL)\n" + text, "q")
        res = "unknown"
        while True:
            cmd = p.nextCommand()
            if cmd.isNull():
                break
            out = cmd.invoke(slv, sm).strip()
            if out in ("sat", "unsat", "unknown"):
                res = out
        return res
    except Exception:
        return "unknown"


def _first_ite_cond(t):
    """condition of some if-then-else subterm whose condition is itself
    ite-free (innermost first), or None"""
    seen = set()
    stack = [t]
    found = None
    while stack:
        u = stack.pop()
        k = u.get_id()
        if k in seen:
            continue
        seen.add(k)
        if z3.is_app(u):
            if u.decl().kind() == z3.Z3_OP_ITE:
                c = u.arg(0)
                if _first_ite_cond(c) is None:
                    return c
                found = c
            stack.extend(u.children())
    if found is not None:
        return _first_ite_cond(found)
    return None


def _val_to_fraction(val):
    if z3.is_rational_value(val):
        return Fraction(val.numerator_as_long(), val.denominator_as_long())
    if z3.is_algebraic_value(val):
        a = val.approx(30)
        return Fraction(a.numerator_as_long(), a.denominator_as_long())
    try:
        return Fraction(str(val))
    except Exception:
        return Fraction(0)


def _eval_obs(m, v):
    if isinstance(v, Sym):
        if v.z is None:
            return "poison"
        return str(_val_to_fraction(m.eval(v.z, model_completion=True)))
    if isinstance(v, SymBool):
        return bool(z3.is_true(m.eval(v.z, model_completion=True)))
    if isinstance(v, (list, tuple, _np.ndarray)):
        return [_eval_obs(m, x) for x in v]
    if isinstance(v, (_np.integer,)):
        return int(v)
    if isinstance(v, (_np.floating, float)):
        return str(Fraction(float(v))) if math.isfinite(float(v)) else "poison"
    if isinstance(v, (bool, _np.bool_)):
        return bool(v)
    if isinstance(v, int):
        return str(Fraction(v))
    if v is None:
        return None
    return str(v)


def _short(o):
    if isinstance(o, list):
        return [_short(x) for x in o[:8]]
    if isinstance(o, str):
        try:
            return float(Fraction(o))
        except Exception:
            return o
    return o


class AssumptionFailed(Exception):
    pass


class ConcreteEngine(object):
    """Runs the same harness with plain floats on the unshimmed code."""
    mode = "concrete"

    def __init__(self, inputs, tol=1e-9, known=None):
        self.given = dict(inputs)
        self.tol = tol
        self.known = list(known or [])
        self.known_failed = []
        self.failed = []        # tags
        self.observed = []
        self.obligations = 0
        self.inputs = []

    def fresh(self, name, integer=False):
        if name not in self.given:
            raise AssumptionFailed("missing input " + name)
        v = self.given[name]
        if isinstance(v, str):
            v = Fraction(v)
            if integer and v.denominator == 1:
                # integer-typed user data (e.g. spike counts): numpy will
                # build an integer array from it
                self.inputs.append((name, int(v)))
                return int(v)
            v = float(v)
        self.inputs.append((name, v))
        return float(v)

    def assume(self, cond):
        if not cond:
            raise AssumptionFailed("input assumption violated in float replay")

    def _close(self, a, b):
        try:
            a = float(a)
            b = float(b)
        except TypeError:
            return False
        if math.isnan(a) or math.isnan(b) or math.isinf(a) or math.isinf(b):
            return False
        return abs(a - b) <= self.tol * (1.0 + max(abs(a), abs(b)))

    def eq(self, a, b):
        return self._close(a, b)

    def eq_abs(self, a, b, atoms):
        return self._close(a, b)

    def le(self, a, b):
        if is_poison(a) or is_poison(b):
            return False
        return a <= b or self._close(a, b)

    def lt(self, a, b):
        if is_poison(a) or is_poison(b):
            return False
        return a < b and not self._close(a, b)

    def finite(self, a):
        try:
            return a is not None and math.isfinite(float(a))
        except TypeError:
            return False

    def prove(self, cond, tag, exempt=None):
        self.obligations += 1
        if not cond:
            if self.in_known_region(tag):
                self.known_failed.append(tag)
                return False
            self.failed.append(tag)
            return False
        return True

    def in_known_region(self, tag):
        import re as _re
        for k in self.known:
            if not _re.search(k["tag"], tag):
                continue
            ns = dict(self.inputs)
            ns.update(smax=max, smin=min, abs=abs)
            try:
                if eval(k["region"], {"__builtins__": {}}, ns):
                    return True
            except NameError:
                continue
        return False

    def observe(self, name, value):
        self.observed.append((name, value))

    def branch(self, cond):
        raise RuntimeError("symbolic branch in concrete mode")

    def note_divzero(self):
        pass

    def note_poison_compare(self):
        pass
