"""Harness helpers shared by the property modules: symbolic input builders and
the independent oracles written from the property statements.  Everything here
works in both engine modes (symbolic `Sym` values / plain floats)."""
import contextlib
import io

import numpy as np

from . import engine as eng
from .engine import smax, smin, sand, sor, snot, simplies, is_poison, Sym


def E_():
    return eng.ENG


def quiet():
    """PieceWiseLinFunc.integral prints debug output in one branch"""
    return contextlib.redirect_stdout(io.StringIO())


# ----------------------------------------------------------------- inputs
def edges(E, tag=""):
    ts = E.fresh("ts" + tag)
    te = E.fresh("te" + tag)
    E.assume(ts < te)
    return ts, te


def spikes(E, name, n, ts, te):
    """n strictly increasing spike times in [ts, te]"""
    s = [E.fresh("%s%d" % (name, i)) for i in range(n)]
    if s:
        E.assume(s[0] >= ts)
        E.assume(s[-1] <= te)
    for u, v in zip(s[:-1], s[1:]):
        E.assume(u < v)
    return s


def train(s, ts, te):
    import pyspike
    return pyspike.SpikeTrain(list(s), [ts, te])


def param(E, name, kind):
    """kind: 'zero' -> 0.0 ; 'none' -> None ; 'sym' -> symbolic >= 0 ;
    'pos' -> symbolic > 0"""
    if kind == "zero":
        return 0.0
    if kind == "none":
        return None
    v = E.fresh(name)
    if kind == "pos":
        E.assume(v > 0)
    else:
        E.assume(v >= 0)
    return v


# ----------------------------------------------------------------- oracles
def breakpoints(s1, s2, ts, te):
    """edges plus every distinct spike time strictly inside, by naive
    insertion"""
    pts = []
    for x in list(s1) + list(s2):
        if x > ts and x < te:
            k = 0
            dup = False
            while k < len(pts):
                if x == pts[k]:
                    dup = True
                    break
                if x < pts[k]:
                    break
                k += 1
            if not dup:
                pts.insert(k, x)
    return [ts] + pts + [te]


def prev_next(s, t):
    """indices of the last spike <= t and of the first spike > t"""
    prev = None
    nxt = None
    for k in range(len(s)):
        if s[k] <= t:
            prev = k
    for k in range(len(s) - 1, -1, -1):
        if s[k] > t:
            nxt = k
    return prev, nxt


def isi_len(s, t, ts, te):
    """length of the inter-spike interval of train s containing time t
    (statement of C01)"""
    N = len(s)
    if N == 0:
        return te - ts
    prev, nxt = prev_next(s, t)
    if prev is not None and nxt is not None:
        return s[nxt] - s[prev]
    if prev is None:
        if N == 1:
            return s[0] - ts
        return smax(s[0] - ts, s[1] - s[0])
    if N == 1:
        return te - s[N - 1]
    return smax(te - s[N - 1], s[N - 1] - s[N - 2])


def isi_profile_oracle(s1, s2, ts, te, m):
    xs = breakpoints(s1, s2, ts, te)
    ys = []
    for a, b in zip(xs[:-1], xs[1:]):
        t = (a + b) * 0.5
        v1 = isi_len(s1, t, ts, te)
        v2 = isi_len(s2, t, ts, te)
        ys.append(abs(v1 - v2) / smax(v1, v2, m))
    return xs, ys


def pwc_integral(xs, ys):
    tot = 0
    for k in range(len(ys)):
        tot = tot + ys[k] * (xs[k + 1] - xs[k])
    return tot


def pwl_integral(xs, y1, y2):
    tot = 0
    for k in range(len(y1)):
        tot = tot + (y1[k] + y2[k]) * 0.5 * (xs[k + 1] - xs[k])
    return tot


# --- SPIKE ------------------------------------------------------------------
def aux_spikes(s, ts, te):
    N = len(s)
    if N > 1:
        return smin(ts, s[0] - (s[1] - s[0])), smax(te, s[N - 1] + (s[N - 1] - s[N - 2]))
    return ts, te


def nearest_dist(x, other, ts, te):
    """global minimum of |x - c| over the other train's spikes and its two
    auxiliary (mirrored) spikes"""
    a0, a1 = aux_spikes(other, ts, te)
    c = [a0] + list(other) + [a1]
    return smin([abs(x - ci) for ci in c])


def spike_contrib(s, other, t, ts, te):
    """(f, isi): f(tt) is train s's interpolated nearest-spike distance at tt
    for tt in the piece containing t; isi its current inter-spike interval.
    An empty train is represented by its two auxiliary edge spikes."""
    if len(s) == 0:
        s = [ts, te]
    if len(other) == 0:
        other = [ts, te]
    N = len(s)
    prev, nxt = prev_next(s, t)
    if prev is not None and nxt is not None:
        tP, tF = s[prev], s[nxt]
        dP = nearest_dist(tP, other, ts, te)
        dF = nearest_dist(tF, other, ts, te)
        isi = tF - tP
        return (lambda tt: (dP * (tF - tt) + dF * (tt - tP)) / isi), isi
    if prev is None:
        dF = nearest_dist(s[0], other, ts, te)
        isi = smax(s[0] - ts, s[1] - s[0]) if N > 1 else s[0] - ts
        return (lambda tt: dF), isi
    dP = nearest_dist(s[N - 1], other, ts, te)
    isi = smax(te - s[N - 1], s[N - 1] - s[N - 2]) if N > 1 else te - s[N - 1]
    return (lambda tt: dP), isi


def spike_combine(i1, i2, S1, S2, m, RI):
    mean = 0.5 * (i1 + i2)
    lim = smax(m, mean)
    if RI:
        return 0.5 * (S1 + S2) / lim
    return 0.5 * (S1 * i2 + S2 * i1) / (mean * lim)


def spike_profile_oracle(s1, s2, ts, te, m, RI):
    xs = breakpoints(s1, s2, ts, te)
    y1 = []
    y2 = []
    for a, b in zip(xs[:-1], xs[1:]):
        t = (a + b) * 0.5
        f1, i1 = spike_contrib(s1, s2, t, ts, te)
        f2, i2 = spike_contrib(s2, s1, t, ts, te)
        y1.append(spike_combine(i1, i2, f1(a), f2(a), m, RI))
        y2.append(spike_combine(i1, i2, f1(b), f2(b), m, RI))
    return xs, y1, y2


# --- coincidence ------------------------------------------------------------
def interp_thresh(a, b, t):
    """documented thresholded interpolation: min(a,b) if t is small, b if t is
    big, t in between"""
    mab = smin(a, b)
    if t < mab:
        return mab
    if t > b:
        return b
    return t


def window(s1, s2, i, j, ts, te, max_tau, m):
    """coincidence window of the pair (s1[i], s2[j]) from the four adjacent
    ISIs (statement of C03 / C16): half of the smallest ISI adjacent to either
    spike, a missing neighbour counting as the recording length; with MRTS > 0
    the thresholded interpolation; capped by max_tau when max_tau > 0."""
    T = te - ts
    lim = T
    has_cap = False
    if max_tau is not None and (max_tau > 0):
        lim = smin(T, 2 * max_tau)
        has_cap = True
    F1 = s1[i + 1] - s1[i] if i < len(s1) - 1 else lim
    P1 = s1[i] - s1[i - 1] if i > 0 else lim
    F2 = s2[j + 1] - s2[j] if j < len(s2) - 1 else lim
    P2 = s2[j] - s2[j - 1] if j > 0 else lim
    F1, P1, F2, P2 = F1 / 2., P1 / 2., F2 / 2., P2 / 2.
    mm = m / 4. if not (isinstance(m, (int, float)) and m == 0) else 0.0
    if s1[i] <= s2[j]:
        a = interp_thresh(P1, F1, mm)
        b = interp_thresh(F2, P2, mm)
    else:
        a = interp_thresh(F1, P1, mm)
        b = interp_thresh(P2, F2, mm)
    tau = smin(a, b)
    if has_cap:
        tau = smin(tau, max_tau)
    return tau


def coincidences(s1, s2, ts, te, max_tau, m):
    """all-pairs definition: c1[i] is True iff some j has
    |s1[i]-s2[j]| < window(i,j).  Returns (c1, c2, partner1, partner2)."""
    c1 = [False] * len(s1)
    c2 = [False] * len(s2)
    p1 = [None] * len(s1)
    p2 = [None] * len(s2)
    for i in range(len(s1)):
        for j in range(len(s2)):
            tau = window(s1, s2, i, j, ts, te, max_tau, m)
            if abs(s1[i] - s2[j]) < tau:
                c1[i] = True
                c2[j] = True
                p1[i] = j
                p2[j] = i
    return c1, c2, p1, p2


def merged_events(s1, s2):
    """distinct event times in increasing order with the list of (train, idx)
    at each"""
    ev = []
    i = j = 0
    while i < len(s1) or j < len(s2):
        if j >= len(s2) or (i < len(s1) and s1[i] < s2[j]):
            ev.append((s1[i], [(0, i)]))
            i += 1
        elif i >= len(s1) or s2[j] < s1[i]:
            ev.append((s2[j], [(1, j)]))
            j += 1
        else:
            ev.append((s1[i], [(0, i), (1, j)]))
            i += 1
            j += 1
    return ev
