"""Loads PySpike from the repository working tree and switches it between

  backend 'py'  : extension modules not importable -> pure-Python fallback
  backend 'pyx' : the .pyx sources, re-translated from /repo on every run by
                  vf.decy, installed as pyspike.cython.cython_* so that the
                  public API takes its "extension available" route

and between

  mode 'sym'      : module globals patched from outside (numpy proxy that
                    allocates dtype=object arrays, float(), max/min) so that
                    symbolic values flow through the unmodified code
  mode 'concrete' : nothing patched (py) / C-double emulation with
                    numpy.float64 (pyx); used for replays and trace validation

No file in /repo is modified.
"""
import builtins
import math
import os
import sys
import types
import warnings

import numpy as _np

from . import engine as _e
from .decy import decythonize

REPO = os.environ.get("VERIF_REPO", "/repo")
PYX = ["cython_get_tau", "cython_profiles", "cython_distances", "cython_add",
       "cython_directionality"]

_state = dict(backend=None, mode=None, fork=None, init=False)
_pyx_src = {}
_mutations = []      # list of (module name, old, new) applied textually


class VerifSetupError(Exception):
    pass


def init():
    if _state["init"]:
        return
    if REPO not in sys.path:
        sys.path.insert(0, REPO)
    warnings.filterwarnings("ignore")
    import pyspike
    if not os.path.abspath(pyspike.__file__).startswith(os.path.abspath(REPO)):
        raise VerifSetupError("pyspike imported from %s, not from %s" %
                              (pyspike.__file__, REPO))
    pyspike.disable_backend_warning = True
    import pyspike.cython.python_backend            # noqa
    import pyspike.cython.directionality_python_backend   # noqa
    import pyspike.isi_lengths                      # noqa
    import pyspike.generic                          # noqa
    _state["init"] = True


# ------------------------------------------------------------------ numpy proxy
class SymNP(object):
    """forwards to numpy, but float allocations become object arrays"""

    def __getattr__(self, n):
        return getattr(_np, n)

    @staticmethod
    def _dt(dtype):
        if dtype is None or dtype is float or dtype is _np.float64 or dtype is sfloat:
            return object
        return dtype

    def empty(self, n, dtype=None):
        return _np.empty(n, dtype=self._dt(dtype))

    def zeros(self, n, dtype=None):
        a = _np.empty(n, dtype=self._dt(dtype))
        a[...] = 0.0
        return a

    def ones(self, n, dtype=None):
        a = _np.empty(n, dtype=self._dt(dtype))
        a[...] = 1.0
        return a

    def array(self, x, dtype=None, **kw):
        if dtype is float or dtype is sfloat:
            dtype = object
        if dtype is None:
            a = _np.array(x, **kw)
            if a.dtype.kind == 'f':
                a = a.astype(object)
            return a
        return _np.array(x, dtype=dtype, **kw)

    def zeros_like(self, x, dtype=None, **kw):
        a = _np.zeros_like(x, **kw) if dtype is None else _np.zeros_like(x, dtype=self._dt(dtype), **kw)
        return a.astype(object) if a.dtype.kind == 'f' else a

    def empty_like(self, x, dtype=None, **kw):
        a = _np.empty_like(x, **kw) if dtype is None else _np.empty_like(x, dtype=self._dt(dtype), **kw)
        return a.astype(object) if a.dtype.kind == 'f' else a

    def asarray(self, x, dtype=None, **kw):
        # numpy does not copy when the input already is an array of the
        # requested type; object arrays stand for float64 arrays here
        if isinstance(x, _np.ndarray) and (
                (x.dtype == object and (dtype is None or dtype is float or dtype is sfloat
                                        or dtype is _np.float64 or dtype is object))
                or (dtype is None)):
            return x
        return self.array(x, dtype=dtype, **kw)

    def sqrt(self, x):
        if isinstance(x, _e.Sym):
            return x.sqrt()
        return _np.sqrt(x)

    def isclose(self, a, b, rtol=1e-05, atol=1e-08, equal_nan=False):
        """numpy's documented contract |a-b| <= atol + rtol*|b| in exact reals"""
        aa = _np.asarray(a, dtype=object)
        bb = _np.asarray(b, dtype=object)
        aa, bb = _np.broadcast_arrays(aa, bb)
        out = _np.empty(aa.shape, dtype=bool)
        for idx in _np.ndindex(aa.shape):
            out[idx] = bool(abs(aa[idx] - bb[idx]) <= atol + rtol * abs(bb[idx]))
        return out if out.shape else bool(out)

    def allclose(self, a, b, rtol=1e-05, atol=1e-08, equal_nan=False):
        return bool(_np.all(self.isclose(a, b, rtol, atol)))


SNP = SymNP()


def sfloat(x):
    if isinstance(x, _e.Sym):
        return x
    return float(x)


# ------------------------------------------------------------------ memoryviews
class CythonIndexError(IndexError):
    pass


class MV(object):
    """stand-in for a typed memoryview compiled with boundscheck=False,
    wraparound=False: any index outside 0..len-1 is reported."""
    __slots__ = ("a",)

    def __init__(self, a):
        if isinstance(a, MV):
            a = a.a
        if not isinstance(a, _np.ndarray):
            a = _np.asarray(a)
        if a.ndim != 1:
            raise TypeError("double[:] needs a 1-d buffer")
        self.a = a

    def __len__(self):
        return len(self.a)

    @property
    def shape(self):
        return self.a.shape

    def _chk(self, i):
        if isinstance(i, slice):
            for v in (i.start, i.stop):
                if v is not None and (v < 0 or v > len(self.a)):
                    raise CythonIndexError("memoryview slice %r outside 0..%d "
                                           "(boundscheck=False, wraparound=False)"
                                           % (i, len(self.a)))
            return
        if i < 0 or i >= len(self.a):
            raise CythonIndexError("memoryview index %d outside 0..%d "
                                   "(boundscheck=False, wraparound=False: "
                                   "out-of-bounds access in C)" % (i, len(self.a) - 1))

    def __getitem__(self, i):
        self._chk(i)
        if isinstance(i, slice):
            return MV(self.a[i])
        return self.a[i]

    def __setitem__(self, i, v):
        self._chk(i)
        if isinstance(v, MV):
            v = v.a
        self.a[i] = v

    def __array__(self, dtype=None, copy=None):
        if dtype is not None and dtype != self.a.dtype:
            return self.a.astype(dtype)
        return self.a

    def __iter__(self):
        return iter(self.a)


def _mv(x):
    return MV(x)


def _cd_sym(x):
    return x


def _cd_conc(x):
    if isinstance(x, (bool, int)) and not isinstance(x, float):
        return _np.float64(x)
    return _np.float64(x)


def _cfabs(x):
    return _np.float64(abs(x))


def _cfmax(a, b):
    a = _np.float64(a)
    b = _np.float64(b)
    if math.isnan(a):
        return b
    if math.isnan(b):
        return a
    return a if a >= b else b


def _cfmin(a, b):
    a = _np.float64(a)
    b = _np.float64(b)
    if math.isnan(a):
        return b
    if math.isnan(b):
        return a
    return a if a <= b else b


# ------------------------------------------------------------------ mutations
def set_mutations(muts):
    """textual mutations (module, old, new) used by negative controls; they
    are applied to the in-memory module source only"""
    global _mutations
    _mutations = list(muts or [])
    _state["backend"] = None     # force re-install


def _mutated_source(modname, src):
    for (mod, old, new) in _mutations:
        if mod == modname:
            if old not in src:
                raise VerifSetupError("mutation target not found in %s: %r" % (mod, old))
            src = src.replace(old, new, 1)
    return src


_PY_MODS = ["pyspike.cython.python_backend",
            "pyspike.cython.directionality_python_backend",
            "pyspike.isi_lengths", "pyspike.generic", "pyspike.spikes",
            "pyspike.SpikeTrain", "pyspike.PieceWiseConstFunc",
            "pyspike.PieceWiseLinFunc", "pyspike.DiscreteFunc",
            "pyspike.isi_distance", "pyspike.spike_distance",
            "pyspike.spike_sync", "pyspike.spike_directionality", "pyspike.psth"]

_orig_src = {}
_mutated_mods = set()


def _reexec_py_modules():
    """(re)execute python modules whose source is subject to a mutation (or
    was mutated before and has to be restored)"""
    want = set(m for (m, _, _) in _mutations if not m.startswith("pyx:"))
    for modname in list(want | _mutated_mods):
        mod = sys.modules[modname]
        if modname not in _orig_src:
            _orig_src[modname] = open(mod.__file__).read()
        src = _mutated_source(modname, _orig_src[modname])
        before = dict(mod.__dict__)
        exec(compile(src, mod.__file__, "exec"), mod.__dict__)
        # functions/classes re-created by the re-execution replace the old
        # objects wherever another pyspike module imported them by name
        import pyspike
        holders = [pyspike] + [sys.modules[o] for o in _PY_MODS if o in sys.modules and o != modname]
        for nm, oldobj in before.items():
            newobj = mod.__dict__.get(nm)
            if newobj is oldobj or not callable(oldobj) or nm.startswith("__"):
                continue
            if getattr(oldobj, "__module__", None) != modname:
                continue
            for h in holders:
                if h.__dict__.get(nm) is oldobj:
                    setattr(h, nm, newobj)
    _mutated_mods.clear()
    _mutated_mods.update(want)


# ------------------------------------------------------------------ state switch
def _remove_pyx():
    import pyspike.cython as pc
    for n in PYX + ["cython_simulated_annealing"]:
        sys.modules.pop("pyspike.cython." + n, None)
        if hasattr(pc, n):
            delattr(pc, n)


def _install_pyx(mode):
    import pyspike.cython as pc
    _remove_pyx()
    for n in PYX:
        path = os.path.join(REPO, "pyspike", "cython", n + ".pyx")
        if n not in _pyx_src:
            _pyx_src[n] = decythonize(open(path).read())
        src = _mutated_source("pyx:" + n, _pyx_src[n])
        m = types.ModuleType("pyspike.cython." + n)
        m.__file__ = path
        g = m.__dict__
        g["_mv"] = _mv
        if mode == "sym":
            g.update(fabs=_e.c_fabs, fmax=_e.c_fmax, fmin=_e.c_fmin,
                     max=_e.smax, min=_e.smin, _cd=_cd_sym)
        else:
            g.update(fabs=_cfabs, fmax=_cfmax, fmin=_cfmin, _cd=_cd_conc)
        exec(compile(src, path + "<decythonized>", "exec"), g)
        if mode == "sym":
            g["np"] = SNP
        sys.modules["pyspike.cython." + n] = m
        setattr(pc, n, m)


def set_state(backend, mode, fork=False):
    init()
    key = (backend, mode, bool(fork))
    if (_state["backend"], _state["mode"], _state["fork"]) == key:
        return
    _reexec_py_modules()
    _e.FORK_MINMAX[0] = bool(fork)
    for name in _PY_MODS:
        mod = sys.modules.get(name)
        if mod is None:
            __import__(name)
            mod = sys.modules[name]
        if hasattr(mod, "np") or name in ("pyspike.psth",):
            mod.np = SNP if mode == "sym" else _np
        if mode == "sym":
            mod.max = _e.smax
            mod.min = _e.smin
            mod.float = sfloat
        else:
            for a in ("max", "min", "float"):
                if a in mod.__dict__:
                    del mod.__dict__[a]
    if backend == "pyx":
        _install_pyx(mode)
    elif backend == "py":
        _remove_pyx()
    else:
        raise ValueError(backend)
    _state.update(backend=backend, mode=mode, fork=bool(fork))


def pyx_function_names():
    """names of the def-level routines found in the translated .pyx sources"""
    import re
    out = {}
    for n in PYX:
        path = os.path.join(REPO, "pyspike", "cython", n + ".pyx")
        if n not in _pyx_src:
            _pyx_src[n] = decythonize(open(path).read())
        out[n] = re.findall(r"^def\s+(\w+)", _pyx_src[n], flags=re.M)
    return out
