"""C11  Discrete profiles add by event and integrate over open intervals."""
import itertools

import numpy as np
import pyspike
from .. import hx

ID = "C11"
LEVEL = "model_checking"
BOUNDS = {
    "quick": "discrete profiles with 0..3 events (times in [t_start, t_end], edges included, symbolic values and "
             "symbolic multiplicities >= 1): add of two operands (all size pairs, py and pyx) and of three; "
             "integral/avrg over None, one symbolic interval a < b and two intervals; plottable data with smoothing "
             "window k in {0,1,2} for every assignment of multiplicities from {1,2} (<= 3 events)",
    "thorough": "0..5 events per operand; smoothing with <= 4 events",
}
OUTSIDE = "more events; multiplicities other than {1,2} in the smoothing window; float rounding"
ASSUMPTIONS = ["operands satisfy the representation the kernels produce: x[0]=t_start, x[-1]=t_end, event times "
               "strictly increasing in between, edge entries duplicate the first/last event (an operand without "
               "events is [t_start,t_end] with value/multiplicity 1 as the kernels emit it)",
               "oracle: merge by event time (dictionary semantics); open-interval sums; unit-contribution expansion for smoothing"]


def configs(tier):
    n = 3 if tier == "quick" else 5
    for be in ("py", "pyx"):
        for n1 in range(n + 1):
            for n2 in range(n + 1):
                yield dict(name="add-%s-%d+%d" % (be, n1, n2), what="add", backend=be, ns=[n1, n2],
                           cost=4 ** (n1 + n2), split_forks=(8 if n1 + n2 >= 7 else None))
        for ns in [(1, 1, 1), (2, 1, 1), (0, 2, 1), (1, 0, 2), (2, 2, 1)] + ([(2, 2, 2), (3, 2, 1)] if tier != "quick" else []):
            yield dict(name="add3-%s-%s" % (be, "+".join(map(str, ns))), what="add", backend=be, ns=list(ns),
                       cost=5 ** sum(ns), split_forks=(6 if sum(ns) >= 5 else None))
    for k in range(n + 1):
        yield dict(name="integral-%d" % k, what="integral", backend="py", n=k, cost=3 ** k)
        yield dict(name="two-intervals-%d" % k, what="two", backend="py", n=k, cost=9 ** k,
                   split_forks=(6 if k >= 3 else None))
    for k in range(0, (3 if tier == "quick" else 4) + 1):
        for mps in itertools.product((1, 2), repeat=k):
            for w in (0, 1, 2):
                yield dict(name="plot-%d-%s-w%d" % (k, "".join(map(str, mps)) or "none", w), what="plot",
                           backend="py", n=k, mps=list(mps), w=w, cost=2)


def controls(tier):
    yield dict(name="control-py-add-tail", what="add", backend="py", ns=[3, 1],
               mutations=[("pyspike.cython.python_backend",
                           "        y_new[index+1:index+1+N1-index1] = y1[index1+1:]\n",
                           "        y_new[index+1:index+1+N1-index1] = y1[index1:-1]\n")])
    yield dict(name="control-integral-closed", what="integral", backend="py", n=1,
               mutations=[("pyspike.DiscreteFunc",
                           "end_ind = np.searchsorted(self.x, ival[1], side='left')",
                           "end_ind = min(len(self.x)-1, np.searchsorted(self.x, ival[1], side='right'))")])
    yield dict(name="control-pyx-add-equal", what="add", backend="pyx", ns=[1, 1],
               mutations=[("pyx:cython_add", "mp_new[index] = mp1[index1] + mp2[index2]",
                           "mp_new[index] = mp1[index1]")])


def mkdisc(E, tag, n, ts, te, mps=None):
    ev = hx.spikes(E, tag + "t", n, ts, te)
    if n == 0:
        return pyspike.DiscreteFunc([ts, te], [1.0, 1.0], [1.0, 1.0]), []
    ys = [E.fresh("%sy%d" % (tag, i)) for i in range(n)]
    if mps is None:
        ms = [E.fresh("%sm%d" % (tag, i)) for i in range(n)]
        for m in ms:
            E.assume(m >= 1)
    else:
        ms = [float(m) for m in mps]
    x = [ts] + ev + [te]
    y = [ys[0]] + ys + [ys[-1]]
    mp = [ms[0]] + ms + [ms[-1]]
    return pyspike.DiscreteFunc(x, y, mp), list(zip(ev, ys, ms))


def merge_events(lists):
    out = []      # (t, y, mp) sorted by t
    for evs in lists:
        for (t, y, m) in evs:
            k = 0
            done = False
            while k < len(out):
                if t == out[k][0]:
                    out[k] = (out[k][0], out[k][1] + y, out[k][2] + m)
                    done = True
                    break
                if t < out[k][0]:
                    break
                k += 1
            if not done:
                out.insert(k, (t, y, m))
    return out


def program(E, cfg):
    ts, te = hx.edges(E)
    what = cfg["what"]
    if what == "add":
        fs = []
        evs = []
        for k, n in enumerate(cfg["ns"]):
            f, ev = mkdisc(E, "fgh"[k], n, ts, te)
            fs.append(f)
            evs.append(ev)
        snaps = [[(nm, getattr(f, nm), list(getattr(f, nm))) for nm in ("x", "y", "mp")] for f in fs[1:]]
        res = fs[0].copy()
        for g in fs[1:]:
            res.add(g)
        E.observe("x", list(res.x))
        E.observe("y", list(res.y)[1:-1])
        E.observe("mp", list(res.mp)[1:-1])
        exp = merge_events(evs)
        if E.prove(len(res.x) == len(exp) + 2 and len(res.y) == len(res.x) and len(res.mp) == len(res.x),
                   "one entry per distinct event time plus the two edge entries"):
            E.prove(E.eq(res.x[0], ts), "first entry is the start edge")
            E.prove(E.eq(res.x[-1], te), "last entry is the end edge")
            for k, (t, y, m) in enumerate(exp):
                E.prove(E.eq(res.x[k + 1], t), "event time in increasing order")
                E.prove(E.eq(res.y[k + 1], y), "value summed where both operands have the event, copied otherwise")
                E.prove(E.eq(res.mp[k + 1], m), "multiplicity summed where both operands have the event, copied otherwise")
        for g, sn in zip(fs[1:], snaps):
            ok = all(getattr(g, nm) is arr and len(arr) == len(el) and
                     all((a is b) or (E.mode == "concrete" and a == b) for a, b in zip(arr, el))
                     for nm, arr, el in sn)
            E.prove(ok, "the added operand is not modified")
        c, m = res.integral()
        E.prove(E.eq(c, sum(y for _, y, _ in exp)), "integral of the sum counts every event once")
        E.prove(E.eq(m, sum(mm for _, _, mm in exp)), "multiplicity of the sum counts every event once")
        # the sum is an independent object: scaling it afterwards must not reach the operands
        # (and what the operands answer must not depend on what was done to the sum)
        before = [g.integral() for g in fs[1:]]
        fac = E.fresh("fac")
        res.mul_scalar(fac)
        if len(res.x) == len(exp) + 2:
            for k, (t, y, mm) in enumerate(exp):
                E.prove(E.eq(res.y[k + 1], y * fac), "mul_scalar scales the values of the sum")
                E.prove(E.eq(res.mp[k + 1], mm), "mul_scalar leaves the multiplicities")
        c2, m2 = res.integral()
        E.prove(E.eq(c2, fac * sum(y for _, y, _ in exp)), "integral after scaling = scaled integral (no stale state)")
        E.prove(E.eq(m2, sum(mm for _, _, mm in exp)), "multiplicity after scaling unchanged")
        for g, sn, b4 in zip(fs[1:], snaps, before):
            ok = all(getattr(g, nm) is arr and len(arr) == len(el) and
                     all((a is b) or (E.mode == "concrete" and a == b) for a, b in zip(arr, el))
                     for nm, arr, el in sn)
            E.prove(ok, "scaling the sum does not modify the added operand")
            af = g.integral()
            E.prove(E.eq(af[0], b4[0]), "operand's integral unaffected by operations on the sum (values)")
            E.prove(E.eq(af[1], b4[1]), "operand's integral unaffected by operations on the sum (multiplicities)")
        return
    if what in ("integral", "two"):
        f, ev = mkdisc(E, "f", cfg["n"], ts, te)

        def inside(a, b):
            v = 0
            m = 0
            cnt = 0
            for (t, y, mm) in ev:
                if t > a and t < b:
                    v = v + y
                    m = m + mm
                    cnt += 1
            return v, m, cnt
        if what == "integral":
            a, b = _sub(E, "", ts, te)
            v, m = f.integral((a, b))
            E.observe("integral", [v, m])
            ov, om, cnt = inside(a, b)
            E.prove(E.eq(v, ov), "integral = sum of values of the events strictly inside (a,b)")
            E.prove(E.eq(m, om), "integral = sum of multiplicities of the events strictly inside (a,b)")
            A = f.avrg((a, b))
            E.observe("avrg", A)
            if cnt == 0:
                E.prove(E.eq(A, 1.0), "avrg is 1 when no event is inside")
            else:
                E.prove(E.eq(A * om, ov), "avrg = values / multiplicities")
            v0, m0 = f.integral()
            E.prove(E.eq(v0, sum(y for _, y, _ in ev)), "integral without interval counts all events (values)")
            E.prove(E.eq(m0, sum(mm for _, _, mm in ev)), "integral without interval counts all events (multiplicity)")
            A0 = f.avrg()
            if ev:
                E.prove(E.eq(A0 * sum(mm for _, _, mm in ev), sum(y for _, y, _ in ev)), "avrg without interval")
            else:
                E.prove(E.eq(A0, 1.0), "avrg of a profile without events is 1")
            E.prove(E.eq(f.avrg((a, b), normalize=False), ov), "un-normalised avrg = summed values")
        else:
            a, b = _sub(E, "p", ts, te)
            c, d = _sub(E, "q", ts, te)
            v, m = f.integral([(a, b), (c, d)])
            E.observe("integral2", [v, m])
            v1, m1, _ = inside(a, b)
            v2, m2, _ = inside(c, d)
            E.prove(E.eq(v, v1 + v2), "several intervals add up (values)")
            E.prove(E.eq(m, m1 + m2), "several intervals add up (multiplicities)")
        return
    if what == "plot":
        f, ev = mkdisc(E, "f", cfg["n"], ts, te, mps=cfg["mps"])
        w = cfg["w"]
        xp, yp = f.get_plottable_data(averaging_window_size=w)
        E.observe("xp", list(xp))
        E.observe("yp", list(yp))
        X = list(f.x)
        Y = list(f.y)
        M = [int(v) for v in f.mp]
        if not E.prove(len(xp) == len(X) and len(yp) == len(X), "plottable lengths"):
            return
        for k in range(len(X)):
            E.prove(E.eq(xp[k], X[k]), "plottable times")
        exp_mp = (w + 1) * M[0]
        for i in range(len(X)):
            if w == 0 or M[i] >= exp_mp:
                E.prove(E.eq(yp[i] * M[i], Y[i]), "plottable value = value / multiplicity")
                continue
            tot = Y[i]                 # own unit contributions
            cnt = M[i]
            for direction in (+1, -1):
                acc = M[i]
                j = i + direction
                while 0 <= j < len(X) and acc < exp_mp:
                    take = min(M[j], exp_mp - acc)
                    tot = tot + Y[j] * take / M[j]
                    acc += take
                    cnt += take
                    j += direction
            E.prove(E.eq(yp[i] * cnt, tot), "smoothed value = mean over own and nearest unit contributions")


def _sub(E, tag, ts, te):
    a = E.fresh(tag + "a")
    b = E.fresh(tag + "b")
    E.assume(a >= ts)
    E.assume(b <= te)
    E.assume(a < b)
    return a, b
