"""C15  MRTS only de-emphasises small time scales; 'auto' is the pooled ISI threshold."""
import itertools
import sys

import numpy as np
import pyspike
from .. import hx
from .c13 import flatten
from .c16 import marks_from_profile

ID = "C15"
LEVEL = "model_checking"
BOUNDS = {
    "quick": "ISI: two trains with 0..3 spikes (n1+n2<=5); SPIKE-Sync: 0..3 spikes (n1+n2<=3; 4 for py with max_tau=None), max_tau None/symbolic; "
             "SPIKE (plain and RI): 'MRTS=0 equals omitted' and the no-op region for 0..2 spikes, monotonicity for "
             "n1+n2 <= 3 (RI) / <= 2 (plain); symbolic 0 <= m1 <= m2; 'auto': 15 entry points on 2 trains with 0..2 spikes "
             "(n1+n2<=3) and 3 trains with <= 1 spike; py and pyx",
    "thorough": "ISI 3+3; sync n1+n2<=5; SPIKE monotonicity attempted at n1+n2 <= 4 (undecided sizes are reported "
                "inconclusive, never passed); 'auto' with n1+n2 <= 4",
}
OUTSIDE = "larger sizes; SPIKE monotonicity beyond the stated sizes (non-linear real arithmetic limit of the solver)"
ASSUMPTIONS = ["np.sqrt(x) in default_thresh is a fresh r >= 0 with r*r == x; the equation is used for the obligations, "
               "while path exploration treats r as an arbitrary non-negative real (over-approximation of the paths)",
               "a train whose only spike lies on an edge contributes a zero-length edge interval to the pooled list, as "
               "the statement's 'distance to the edge' is read to include it",
               "SPIKE harnesses run in fork mode"]

AUTO_FUNCS = ["isi_profile", "isi_distance", "spike_profile", "spike_distance", "spike_sync_profile", "spike_sync",
              "spike_train_order_profile", "spike_train_order", "spike_directionality", "spike_directionality_values",
              "spike_directionality_matrix", "isi_distance_matrix", "spike_distance_matrix", "spike_sync_matrix",
              "filter_by_spike_sync"]


def configs(tier):
    q = tier == "quick"
    for be in ("py", "pyx"):
        for n1 in range(4):
            for n2 in range(4):
                if n1 + n2 <= (5 if q else 6):
                    yield dict(name="isi-%s-%d+%d" % (be, n1, n2), what="isi", backend=be, n1=n1, n2=n2,
                               cost=5 ** (n1 + n2), split_forks=(8 if n1 + n2 >= 5 else None))
                if n1 + n2 <= (4 if q else 5):
                    for mt in ("none", "pos"):
                        if q and n1 + n2 > 3 and (mt == "pos" or be == "pyx"):
                            continue
                        yield dict(name="sync-%s-mt%s-%d+%d" % (be, mt, n1, n2), what="sync", backend=be, mt=mt,
                                   n1=n1, n2=n2, cost=8 ** (n1 + n2), split_forks=(8 if n1 + n2 >= 4 else None))
                if max(n1, n2) <= 2:
                    for ri in (0, 1):
                        mono = n1 + n2 <= ((3 if ri else 2) if q else 4)
                        yield dict(name="spike-%s-ri%d-%d+%d" % (be, ri, n1, n2), what="spike", backend=be, ri=ri,
                                   n1=n1, n2=n2, mono=mono, fork=True, validate=3, cost=10 ** (n1 + n2) * (4 if mono else 1),
                                   split_forks=(8 if n1 + n2 >= 3 else None), obl_timeout_ms=60000)
        for fn in AUTO_FUNCS:
            sizes = [(0, 0), (1, 0), (1, 1), (2, 1), (0, 2)] + ([(2, 2), (3, 1)] if not q else [])
            if fn not in ("spike_directionality",):
                sizes += [(1, 1, 1), (1, 0, 1)]
            for ns in sizes:
                spike = fn.startswith("spike_pro") or fn.startswith("spike_dist")
                if spike and sum(ns) > 2 and q:
                    continue
                yield dict(name="auto-%s-%s-%s" % (be, fn, "+".join(map(str, ns))), what="auto", backend=be, fn=fn,
                           ns=list(ns), fork=spike, validate=2, cost=9 ** sum(ns) * 3,
                           split_forks=(7 if sum(ns) >= 3 else None))


def controls(tier):
    yield dict(name="control-auto-pair-vs-list", what="auto", backend="py", fn="isi_profile", ns=[1, 1, 1],
               mutations=[("pyspike.generic",
                           "        kwargs['MRTS'] = default_thresh(spike_trains if indices is None\n"
                           "                                        else [spike_trains[i] for i in indices])",
                           "        kwargs['MRTS'] = default_thresh(spike_trains[:2])")])
    yield dict(name="control-default-mrts", what="isi", backend="py", n1=1, n2=1,
               mutations=[("pyspike.generic", "        MRTS = 0.  # default", "        MRTS = 1.  # default")])
    yield dict(name="control-edge-interval", what="auto", backend="py", fn="isi_profile", ns=[2, 1],
               mutations=[("pyspike.isi_lengths",
                           "        isi_lengths.append(max(t_end - spike_times[-1], dels[-1]))",
                           "        isi_lengths.append(t_end - spike_times[-1])")])


def pooled_isis(S, ts, te):
    """all inter-spike-interval lengths of the trains pooled together
    (statement of C15)"""
    out = []
    for s in S:
        n = len(s)
        if n == 0:
            out.append(te - ts)
            continue
        if n == 1:
            out.append(s[0] - ts)
            out.append(te - s[0])
            continue
        if s[0] > ts:
            out.append(hx.smax(s[0] - ts, s[1] - s[0]))
        for k in range(n - 1):
            out.append(s[k + 1] - s[k])
        if s[n - 1] < te:
            out.append(hx.smax(te - s[n - 1], s[n - 1] - s[n - 2]))
    return out


def all_isis(S, ts, te):
    """every interval length that can serve as v_n for a train (no-op region)"""
    return pooled_isis(S, ts, te)


def program(E, cfg):
    ts, te = hx.edges(E)
    what = cfg["what"]
    if what == "auto":
        return auto(E, cfg, ts, te)
    s1 = hx.spikes(E, "a", cfg["n1"], ts, te)
    s2 = hx.spikes(E, "b", cfg["n2"], ts, te)
    a = hx.train(s1, ts, te)
    b = hx.train(s2, ts, te)
    m1 = E.fresh("m1")
    m2 = E.fresh("m2")
    E.assume(m1 >= 0)
    E.assume(m1 <= m2)
    isis = all_isis([s1, s2], ts, te)
    small = hx.sand(*[E.lt(m1, v) for v in isis])      # m1 below every ISI involved
    if what == "isi":
        p0 = pyspike.isi_profile(a, b)
        pz = pyspike.isi_profile(a, b, MRTS=0)
        pa = pyspike.isi_profile(a, b, MRTS=m1)
        pb = pyspike.isi_profile(a, b, MRTS=m2)
        E.observe("y(m1)", list(pa.y))
        E.observe("y(m2)", list(pb.y))
        same_len = len(p0.y) == len(pz.y) == len(pa.y) == len(pb.y)
        if E.prove(same_len, "MRTS does not change the breakpoints"):
            for k in range(len(p0.y)):
                E.prove(E.eq(p0.y[k], pz.y[k]), "MRTS=0 gives exactly the non-adaptive ISI profile")
                E.prove(E.le(pb.y[k], pa.y[k]), "raising MRTS never increases an ISI-profile value")
                E.prove(hx.simplies(small, E.eq(pa.y[k], p0.y[k])), "MRTS below every ISI changes nothing (ISI)")
        # scalar level: the distance is the average of the profile (value-independent identity
        # for the Python route; C05/C12 for the single-pass .pyx kernel), so monotonicity and
        # the MRTS=0 case follow from the piecewise statements above
        d0 = pyspike.isi_distance(a, b)
        da = pyspike.isi_distance(a, b, MRTS=m1)
        if E.finite(d0) and E.finite(da):
            T = te - ts
            if cfg["backend"] == "py":
                E.prove(E.eq_abs(d0 * T, hx.pwc_integral(list(p0.x), list(p0.y)), list(p0.y)),
                        "ISI distance = average of its profile (MRTS omitted)")
                E.prove(E.eq_abs(da * T, hx.pwc_integral(list(pa.x), list(pa.y)), list(pa.y)),
                        "ISI distance = average of its profile (MRTS = m1)")
            E.prove(E.eq(pyspike.isi_distance(a, b, MRTS=0.0), d0), "MRTS=0 gives the non-adaptive ISI distance")
    elif what == "spike":
        kw = {"RI": True} if cfg["ri"] else {}
        p0 = pyspike.spike_profile(a, b, **kw)
        pz = pyspike.spike_profile(a, b, MRTS=0, **kw)
        pa = pyspike.spike_profile(a, b, MRTS=m1, **kw)
        E.observe("y1(m1)", list(pa.y1))
        if E.prove(len(p0.y1) == len(pz.y1) == len(pa.y1), "MRTS does not change the breakpoints"):
            for k in range(len(p0.y1)):
                E.prove(hx.sand(E.eq(p0.y1[k], pz.y1[k]), E.eq(p0.y2[k], pz.y2[k])),
                        "MRTS=0 gives exactly the non-adaptive SPIKE profile")
                E.prove(hx.simplies(small, hx.sand(E.eq(pa.y1[k], p0.y1[k]), E.eq(pa.y2[k], p0.y2[k]))),
                        "MRTS below every ISI changes nothing (SPIKE)")
        if cfg["mono"]:
            pb = pyspike.spike_profile(a, b, MRTS=m2, **kw)
            for k in range(len(pa.y1)):
                E.prove(E.le(pb.y1[k], pa.y1[k]), "raising MRTS never increases a SPIKE-profile value")
                E.prove(E.le(pb.y2[k], pa.y2[k]), "raising MRTS never increases a SPIKE-profile value")
    else:
        mt = hx.param(E, "mt", cfg["mt"])
        p0 = pyspike.spike_sync_profile(a, b, max_tau=mt)
        pz = pyspike.spike_sync_profile(a, b, max_tau=mt, MRTS=0)
        pa = pyspike.spike_sync_profile(a, b, max_tau=mt, MRTS=m1)
        pb = pyspike.spike_sync_profile(a, b, max_tau=mt, MRTS=m2)
        E.observe("y(m1)", list(pa.y))
        E.observe("y(m2)", list(pb.y))
        if E.prove(len(p0.y) == len(pz.y) == len(pa.y) == len(pb.y), "MRTS does not change the entries"):
            for k in range(len(p0.y)):
                E.prove(float(p0.y[k]) == float(pz.y[k]), "MRTS=0 gives exactly the non-adaptive SPIKE-Sync profile")
                E.prove(float(pa.y[k]) <= float(pb.y[k]), "raising MRTS never removes a SPIKE-Sync coincidence")
                E.prove(hx.simplies(small, float(pa.y[k]) == float(p0.y[k])),
                        "MRTS below every ISI changes nothing (SPIKE-Sync)")
        o0 = pyspike.spike_train_order_profile(a, b, max_tau=mt)
        oa = pyspike.spike_train_order_profile(a, b, max_tau=mt, MRTS=m1)
        ob = pyspike.spike_train_order_profile(a, b, max_tau=mt, MRTS=m2)
        for k in range(len(o0.y)):
            E.prove(abs(float(oa.y[k])) <= abs(float(ob.y[k])), "raising MRTS never removes an order-profile coincidence")
            E.prove(hx.simplies(small, float(oa.y[k]) == float(o0.y[k])), "MRTS below every ISI changes nothing (order)")


def auto(E, cfg, ts, te):
    from pyspike import isi_lengths as il
    S = [hx.spikes(E, "abc"[k], n, ts, te) for k, n in enumerate(cfg["ns"])]
    T = [hx.train(s, ts, te) for s in S]
    fn = cfg["fn"]
    f = getattr(pyspike, fn)
    bi = len(T) == 2 and not fn.endswith("_matrix") and fn not in ("spike_directionality_values", "filter_by_spike_sync")
    # record the threshold computed for 'auto'
    seen = []
    mods = [m for m in sys.modules.values() if m is not None and getattr(m, "__name__", "").startswith("pyspike")
            and hasattr(m, "default_thresh")]
    orig = il.default_thresh

    def spy(trains):
        th = orig(trains)
        seen.append(([list(t.spikes) for t in trains], th))
        return th
    saved = [(m, m.default_thresh) for m in mods]
    for m in mods:
        m.default_thresh = spy
    try:
        with hx.quiet():
            if fn == "filter_by_spike_sync":
                r_auto = f(T, 0.5, MRTS="auto")
            elif bi:
                r_auto = f(T[0], T[1], MRTS="auto")
            else:
                r_auto = f(T, MRTS="auto")
    finally:
        for m, o in saved:
            m.default_thresh = o
    if not E.prove(len(seen) >= 1, "'auto' computes a threshold"):
        return
    thetas = [th for _, th in seen]
    theta = thetas[0]
    for th in thetas[1:]:
        E.prove(E.eq(th, theta), "one and the same automatic threshold is used throughout the call")
    E.observe("theta", theta)
    pool = pooled_isis(S, ts, te)
    sq = 0
    for v in pool:
        sq = sq + v * v
    E.prove(E.le(0, theta), "automatic threshold is non-negative")
    E.prove(E.eq(theta * theta * len(pool), sq),
            "automatic threshold = root mean square of the pooled ISI lengths of the trains handed to the call")
    with hx.quiet():
        if fn == "filter_by_spike_sync":
            r_exp = f(T, 0.5, MRTS=theta)
        elif bi:
            r_exp = f(T[0], T[1], MRTS=theta)
        else:
            r_exp = f(T, MRTS=theta)
    f1 = flatten(r_auto)
    f2 = flatten(r_exp)
    E.observe("result", [v for _, v in f1][:20])
    if E.prove(len(f1) == len(f2), "'auto' result has the same structure as with the explicit threshold"):
        for (l1, v1), (l2, v2) in zip(f1, f2):
            if l1.endswith(".len") or l1.endswith(".shape"):
                E.prove(v1 == v2, "'auto': same shape")
            elif not E.finite(v1) and not E.finite(v2):
                continue
            else:
                E.prove(E.eq(v1, v2), "MRTS='auto' gives the same result as passing the automatic threshold explicitly")
