"""C06  Multivariate results are the all-pairs aggregate and ignore list order."""
import itertools

import numpy as np
import pyspike
from .. import hx, stubs
from .c09 import check_combination
from .c10 import integral_oracle
from .c11 import merge_events

ID = "C06"
LEVEL = "model_checking"
BOUNDS = {
    "quick": "generic multivariate route with an arbitrary symbolic pair profile per pair (stub): 3 trains with <= 2 "
             "pieces/events on every pair; 4 trains (6 pairs, recursive halving depth 2) with one piece/event per pair "
             "and 2 on up to two pairs; all permutations of the list (3 trains) / 6 permutations (4 trains); profiles, "
             "distances, matrices for ISI-like, SPIKE-like and sync-like profiles; py and pyx add routines; plus real "
             "kernels end-to-end for 3 trains with <= 1 spike each",
    "thorough": "3 trains with <= 3 pieces per pair; 4 trains with 2 pieces on up to 4 pairs; 5 trains (10 pairs) with "
                "2 pieces on up to 2 pairs; real kernels with 3 trains, <= 2 spikes each (sum <= 4)",
}
OUTSIDE = "more trains / pieces; keyword plumbing is C14/C15"
ASSUMPTIONS = ["stub: <measure>_profile_bi returns an arbitrary symbolic profile keyed by the unordered pair of trains "
               "(vf/stubs.py); the bivariate kernels themselves are C01-C03"]


def shapes(K, tier):
    npairs = K * (K - 1) // 2
    q = tier == "quick"
    if K == 3:
        mx = 2 if q else 3
        for sh in itertools.product(range(1, mx + 1), repeat=3):
            if sorted(sh) == list(sh) or not q:
                yield sh
    else:
        extra = {4: (2 if q else 4), 5: 2}[K]
        base = [1] * npairs
        yield tuple(base)
        for k in range(1, extra + 1):
            for idx in itertools.combinations(range(npairs), k):
                if q and idx not in ((0,), (npairs - 1,), (2,), (0, npairs - 1), (1, 3)):
                    continue
                if not q and K == 5 and idx not in ((0,), (9,), (4, 5), (0, 9)):
                    continue
                if not q and K == 4 and k >= 3 and idx not in ((0, 2, 4), (1, 3, 5), (0, 1, 2, 3), (2, 3, 4, 5)):
                    continue
                sh = list(base)
                for i in idx:
                    sh[i] = 2
                yield tuple(sh)


def configs(tier):
    q = tier == "quick"
    for be in ("py", "pyx"):
        for kind in ("const", "lin", "disc"):
            for K in ((3, 4) if q else (3, 4, 5)):
                for sh in shapes(K, tier):
                    if kind == "disc" and K >= 4:
                        # event times of all pairs are totally ordered by the solver: 6 events = 4 683
                        # weak orderings, 7 = 47 293
                        if q and sum(sh) > len(sh):
                            continue
                        if not q and (sum(sh) > len(sh) + 1 or K > 4):
                            continue
                    if sum(sh) == len(sh) and not (kind == "disc" and K >= 4):
                        # same with keyword settings: every pair kernel must receive them (all measures and keyword settings)
                        yield dict(name="aggkw-%s-%s-K%d-%s" % (be, kind, K, "".join(map(str, sh))), what="agg", backend=be,
                                   kind=kind, K=K, shape=list(sh), fork=(kind == "lin"), validate=2, kw=True,
                                   cost=40 * K)
                    yield dict(name="agg-%s-%s-K%d-%s" % (be, kind, K, "".join(map(str, sh))), what="agg", backend=be,
                               kind=kind, K=K, shape=list(sh), fork=(kind == "lin"), validate=2,
                               cost=40 * 3 ** (sum(sh) - len(sh)) * K, split_forks=(7 if sum(sh) - len(sh) >= 4 else None))
        sizes = [(1, 1, 1), (0, 1, 1), (1, 0, 0)] if q else \
            [ns for ns in itertools.product(range(3), repeat=3) if sum(ns) <= 4]
        for ns in sizes:
            for meas in ("isi", "spike", "sync"):
                yield dict(name="e2e-%s-%s-%s" % (be, meas, "".join(map(str, ns))), what="e2e", backend=be, meas=meas,
                           ns=list(ns), fork=(meas in ("spike", "isi")), validate=3, cost=50 * 8 ** sum(ns),
                           split_forks=(7 if sum(ns) >= 3 else None))


def controls(tier):
    yield dict(name="control-pair-enumeration", what="agg", backend="py", kind="const", K=4, shape=[1] * 6,
               mutations=[("pyspike.generic",
                           "    pairs = [(indices[i], j) for i in range(len(indices))\n             for j in indices[i+1:]]\n\n    L = len(pairs)",
                           "    pairs = [(indices[i], j) for i in range(len(indices))\n             for j in indices[i+1:]]\n    pairs[-1] = pairs[0]\n\n    L = len(pairs)")])
    yield dict(name="control-matrix-mirror", what="agg", backend="py", kind="const", K=3, shape=[1, 1, 1],
               mutations=[("pyspike.generic", "        distance_matrix[j, i] = d\n", "        distance_matrix[j, j] = d\n")])
    yield dict(name="control-sync-diagonal", what="agg", backend="py", kind="disc", K=3, shape=[1, 1, 1],
               mutations=[("pyspike.spike_sync", "        ShouldBeSync[i][i] = 1.0", "        ShouldBeSync[i][i] = 0.0")])


def program(E, cfg):
    if cfg["what"] == "e2e":
        return e2e(E, cfg)
    K = cfg["K"]
    kind = cfg["kind"]
    ts, te = hx.edges(E)
    pairs = [(i, j) for i in range(K) for j in range(i + 1, K)]
    pp = stubs.PairProfiles(E, kind, ts, te, pieces=dict(zip(pairs, cfg["shape"])))
    trains = stubs.dummy_trains(K)
    measure = {"const": "isi", "lin": "spike", "disc": "sync"}[kind]
    prof_f = {"const": pyspike.isi_profile, "lin": pyspike.spike_profile, "disc": pyspike.spike_sync_profile}[kind]
    dist_f = {"const": pyspike.isi_distance, "lin": pyspike.spike_distance, "disc": pyspike.spike_sync}[kind]
    mat_f = {"const": pyspike.isi_distance_matrix, "lin": pyspike.spike_distance_matrix,
             "disc": pyspike.spike_sync_matrix}[kind]
    py = cfg["backend"] == "py"
    if K == 3:
        perms = list(itertools.permutations(range(K)))
    else:
        perms = [tuple(range(K)), tuple(reversed(range(K))), (1, 0) + tuple(range(2, K)),
                 tuple(range(1, K)) + (0,), (2, 0, 3, 1) + tuple(range(4, K)), (K - 1,) + tuple(range(K - 1))]
    kw = {}
    if cfg.get("kw"):
        kw["MRTS"] = E.fresh("kw_MRTS")
        E.assume(kw["MRTS"] > 0)
        if kind == "lin":
            kw["RI"] = True
        if kind == "disc":
            kw["max_tau"] = E.fresh("kw_max_tau")
            E.assume(kw["max_tau"] > 0)
    with stubs.stub_pair_profile(measure, pp), hx.quiet():
        prof = prof_f(trains, **kw)
        dist = dist_f(trains, **kw) if py else None
        mat = mat_f(trains, **kw) if py else None
        others = [(pm, prof_f([trains[k] for k in pm], **kw), dist_f([trains[k] for k in pm], **kw) if py else None)
                  for pm in perms[1:]]
        for (pair, args, kws) in pp.calls:
            for nm, val in kw.items():
                got = kws.get(nm)
                if got is None and args and nm == "max_tau":
                    got = args[0]
                E.prove(got is val or (E.mode == "concrete" and got == val),
                        "keyword %s reaches every pair kernel of the multivariate call" % nm)
        full = (ts, te)
        fs = [pp.profile(i, j) for (i, j) in pairs]
        M = len(pairs)
        if kind == "disc":
            E.observe("x", list(prof.x))
            E.observe("y", list(prof.y)[1:-1])
            exp = merge_events([list(zip(f.x[1:-1], f.y[1:-1], f.mp[1:-1])) for f in fs])
            if E.prove(len(prof.x) == len(exp) + 2, "sync profile: one entry per distinct spike time of any pair"):
                for k, (t, y, m) in enumerate(exp):
                    E.prove(E.eq(prof.x[k + 1], t), "sync profile entry time")
                    E.prove(E.eq(prof.y[k + 1], y), "sync profile carries the summed coincidence counts of all pairs")
                    E.prove(E.eq(prof.mp[k + 1], m), "sync profile carries the summed multiplicities of all pairs")
            tv = sum(y for _, y, _ in exp)
            tm = sum(m for _, _, m in exp)
            if dist is not None:
                E.observe("sync", dist)
                E.prove(E.eq(dist * tm, tv), "multivariate SPIKE-Sync = total coincidences / total multiplicity")
        else:
            E.observe("x", list(prof.x))
            E.observe("y", list(prof.y1 if kind == "lin" else prof.y))
            check_combination(E, prof, fs, [1.0 / M] * M, "multivariate profile = mean of the pair profiles")
            if dist is not None:
                E.observe("distance", dist)
                tot = 0
                for f in fs:
                    tot = tot + integral_oracle(f, ts, te)
                E.prove(E.eq(dist * M * (te - ts), tot), "multivariate distance = mean of the pair distances")
        # permutation invariance
        for pm, p2, d2 in others:
            same = len(p2.x) == len(prof.x)
            if E.prove(same, "permuted list: same breakpoints"):
                for k in range(len(prof.x)):
                    E.prove(E.eq(p2.x[k], prof.x[k]), "permuted list: same time axis")
                names = ("y1", "y2") if kind == "lin" else (("y", "mp") if kind == "disc" else ("y",))
                for nm in names:
                    u = getattr(p2, nm)
                    v = getattr(prof, nm)
                    lo, hi = (1, len(v) - 1) if kind == "disc" else (0, len(v))
                    for k in range(lo, hi):
                        E.prove(E.eq(u[k], v[k]), "permuted list: same profile values")
            if d2 is not None:
                E.prove(E.eq(d2, dist), "permuted list: same distance")
        # matrices
        if mat is not None:
            E.observe("matrix", [list(r) for r in np.asarray(mat)])
            E.prove(mat.shape == (K, K), "matrix shape")
            for i in range(K):
                E.prove(E.eq(mat[i, i], 1.0 if kind == "disc" else 0.0), "matrix diagonal")
                for j in range(K):
                    if i == j:
                        continue
                    f = pp.profile(i, j)
                    if kind == "disc":
                        v = sum(f.y[1:-1])
                        m = sum(f.mp[1:-1])
                        E.prove(E.eq(mat[i, j] * m, v), "matrix entry = bivariate SPIKE-Sync")
                    else:
                        E.prove(E.eq(mat[i, j] * (te - ts), integral_oracle(f, ts, te)),
                                "matrix entry = bivariate distance")
                    E.prove(E.eq(mat[i, j], mat[j, i]), "matrix symmetric")


def e2e(E, cfg):
    ts, te = hx.edges(E)
    S = [hx.spikes(E, "abc"[k], n, ts, te) for k, n in enumerate(cfg["ns"])]
    T = [hx.train(s, ts, te) for s in S]
    K = len(T)
    pairs = [(i, j) for i in range(K) for j in range(i + 1, K)]
    meas = cfg["meas"]
    if meas == "sync":
        prof = pyspike.spike_sync_profile(T)
        fs = [pyspike.spike_sync_profile(T[i], T[j]) for i, j in pairs]
        exp = merge_events([list(zip(f.x[1:-1], f.y[1:-1], f.mp[1:-1])) for f in fs])
        E.observe("x", list(prof.x))
        if E.prove(len(prof.x) == len(exp) + 2, "sync profile: one entry per distinct spike time"):
            for k, (t, y, m) in enumerate(exp):
                E.prove(hx.sand(E.eq(prof.x[k + 1], t), E.eq(prof.y[k + 1], y), E.eq(prof.mp[k + 1], m)),
                        "multivariate sync profile = summed pair profiles")
        v = pyspike.spike_sync(T)
        tm = sum(m for _, _, m in exp)
        if sum(cfg["ns"]) == 0:
            E.prove(E.eq(v, 1.0), "SPIKE-Sync of empty trains is 1")
        else:
            E.prove(E.eq(v * tm, sum(y for _, y, _ in exp)), "multivariate SPIKE-Sync = pooled ratio")
        mat = pyspike.spike_sync_matrix(T)
        for i, j in pairs:
            E.prove(hx.sand(E.eq(mat[i, j], pyspike.spike_sync(T[i], T[j])), E.eq(mat[i, j], mat[j, i])),
                    "sync matrix entry = bivariate value")
        return
    pf = pyspike.isi_profile if meas == "isi" else pyspike.spike_profile
    df = pyspike.isi_distance if meas == "isi" else pyspike.spike_distance
    mf = pyspike.isi_distance_matrix if meas == "isi" else pyspike.spike_distance_matrix
    prof = pf(T)
    fs = [pf(T[i], T[j]) for i, j in pairs]
    E.observe("x", list(prof.x))
    check_combination(E, prof, fs, [1.0 / len(pairs)] * len(pairs), "multivariate profile = mean of the pair profiles")
    d = df(T)
    E.observe("d", d)
    tot = 0
    for i, j in pairs:
        tot = tot + df(T[i], T[j])
    E.prove(E.eq(d * len(pairs), tot), "multivariate distance = mean of the pair distances")
    mat = mf(T)
    for i, j in pairs:
        E.prove(hx.sand(E.eq(mat[i, j], df(T[i], T[j])), E.eq(mat[i, j], mat[j, i])), "matrix entry = bivariate distance")
    for i in range(K):
        E.prove(E.eq(mat[i, i], 0), "matrix diagonal 0")
