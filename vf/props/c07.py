"""C07  Measures respect range, symmetry and identity axioms."""
import pyspike
from .. import hx

ID = "C07"
LEVEL = "model_checking"
BOUNDS = {
    "quick": "ISI / SPIKE-Sync / order / directionality: two trains with 0..3 spikes each (n1+n2 <= 5), MRTS and max_tau "
             "symbolic; SPIKE symmetry+identity+finiteness+non-negativity: 0..2 spikes each (n1+n2 <= 3 with symbolic MRTS); SPIKE upper bound <= 1: RI "
             "variant 0..2 spikes each, plain variant n1+n2 <= 3; py and pyx; whole recording and (ISI, sync) a symbolic "
             "sub-interval at n1+n2 <= 3",
    "thorough": "ISI/sync/order: 3+3; SPIKE equalities n1+n2 <= 4 (3+1, 2+2 with symbolic MRTS); SPIKE upper bound: RI "
                "variant n1+n2 <= 4, plain variant <= 3 (<= 2 with symbolic MRTS; larger sizes were measured undecided)",
}
OUTSIDE = "larger trains; the SPIKE bound S <= 1 beyond the stated sizes (non-linear real arithmetic limit of the solver)"
ASSUMPTIONS = ["fork mode for SPIKE (pure polynomial paths)", "identity uses an equal copy (a.copy()) and the same object"]


def configs(tier):
    q = tier == "quick"
    for be in ("py", "pyx"):
        n = 3
        for n1 in range(n + 1):
            for n2 in range(n + 1):
                if n1 + n2 > (5 if q else 6):
                    continue
                for mk in ("omit", "sym"):
                    yield dict(name="isi-%s-m%s-%d+%d" % (be, mk, n1, n2), what="isi", backend=be, m=mk, n1=n1, n2=n2,
                               cost=4 ** (n1 + n2), split_forks=(8 if n1 + n2 >= 5 else None))
                for mt, mk in (("none", "omit"), ("pos", "pos")):
                    if q and mk == "pos" and n1 + n2 > 4:
                        continue
                    yield dict(name="sync-%s-mt%s-m%s-%d+%d" % (be, mt, mk, n1, n2), what="sync", backend=be, mt=mt,
                               m=mk, n1=n1, n2=n2, cost=6 ** (n1 + n2) * (3 if mk == "pos" else 1),
                               split_forks=(8 if n1 + n2 >= 4 else None))
        ns = 2 if q else 3
        for n1 in range(ns + 1):
            for n2 in range(ns + 1):
                if n1 + n2 > 4:
                    continue
                for ri in (0, 1):
                    for mk in ("omit", "sym"):
                        if q and mk == "sym" and n1 + n2 > 3:
                            continue
                        bound = True
                        # S <= 1 is a genuine non-linear inequality; sizes measured as decided by nlsat:
                        # (measured in the thorough trial: plain variant undecided at 2+2 / with symbolic MRTS at 3)
                        if ri == 0 and n1 + n2 > (3 if mk == "omit" else 2):
                            bound = False       # plain variant not attempted at this size
                        if ri == 1 and n1 + n2 > (3 if mk == "sym" and q else 4):
                            bound = False
                        yield dict(name="spike-%s-ri%d-m%s-%d+%d" % (be, ri, mk, n1, n2), what="spike", backend=be,
                                   ri=ri, m=mk, n1=n1, n2=n2, fork=True, bound=bound,
                                   cost=9 ** (n1 + n2) * (2 if mk == "sym" else 1),
                                   split_forks=(8 if n1 + n2 >= 3 else None), validate=3, obl_timeout_ms=60000)
    for n1, n2 in ((0, 1), (1, 1), (2, 0), (0, 2), (0, 3)):
        yield dict(name="interval-%d+%d" % (n1, n2), what="interval", backend="py", n1=n1, n2=n2,
                   cost=20 * 5 ** (n1 + n2))


def controls(tier):
    yield dict(name="control-py-isi-asym", what="isi", backend="py", m="omit", n1=2, n2=1,
               mutations=[("pyspike.cython.python_backend",
                           "nu2 = max(s2[0] - t_start, s2[1] - s2[0]) if N2 > 1 else s2[0]-t_start",
                           "nu2 = s2[0] - t_start")])
    yield dict(name="control-py-spike-range", what="spike", backend="py", ri=1, m="omit", n1=1, n2=1, fork=True,
               bound=True,
               mutations=[("pyspike.cython.python_backend", "return .5*(s1+s2)/limitedISI", "return (s1+s2)/limitedISI")])


def program(E, cfg):
    ts, te = hx.edges(E)
    s1 = hx.spikes(E, "a", cfg["n1"], ts, te)
    s2 = hx.spikes(E, "b", cfg["n2"], ts, te)
    a = hx.train(s1, ts, te)
    b = hx.train(s2, ts, te)
    what = cfg["what"]
    kw = {}
    if cfg.get("m") in ("sym", "pos"):
        kw["MRTS"] = hx.param(E, "m", cfg["m"])
    if what == "isi":
        p = pyspike.isi_profile(a, b, **kw)
        q = pyspike.isi_profile(b, a, **kw)
        E.observe("y", list(p.y))
        for v in p.y:
            E.prove(E.finite(v), "ISI value finite")
            E.prove(hx.sand(E.le(0, v), E.le(v, 1)), "ISI value in [0,1]")
        if E.prove(len(p.x) == len(q.x), "ISI symmetric (length)"):
            for k in range(len(p.y)):
                E.prove(E.eq(p.y[k], q.y[k]), "ISI profile symmetric")
                E.prove(E.eq(p.x[k], q.x[k]), "ISI breakpoints symmetric")
        d = pyspike.isi_distance(a, b, **kw)
        d2 = pyspike.isi_distance(b, a, **kw)
        E.observe("d", d)
        E.prove(E.finite(d) and E.finite(d2), "ISI distance finite")
        # range and symmetry of the scalar follow from the piecewise statements above and the
        # averaging identity (value abstraction; C05/C12 for the single-pass .pyx kernel)
        T = te - ts
        if cfg["backend"] == "py":
            E.prove(E.eq_abs(d * T, hx.pwc_integral(list(p.x), list(p.y)), list(p.y)),
                    "ISI distance = average of the (symmetric, in-range) profile")
            E.prove(E.eq_abs(d2 * T, hx.pwc_integral(list(q.x), list(q.y)), list(q.y)),
                    "ISI distance = average of the (symmetric, in-range) profile")
        for other in (a, a.copy()):
            r = pyspike.isi_profile(a, other, **kw)
            for v in r.y:
                E.prove(E.eq(v, 0), "ISI profile of a train with itself is 0")
            E.prove(E.eq(pyspike.isi_distance(a, other, **kw), 0), "ISI distance of a train with itself is 0")
    elif what == "spike":
        if cfg["ri"]:
            kw["RI"] = True
        p = pyspike.spike_profile(a, b, **kw)
        q = pyspike.spike_profile(b, a, **kw)
        E.observe("y1", list(p.y1))
        E.observe("y2", list(p.y2))
        for v in list(p.y1) + list(p.y2):
            E.prove(E.finite(v), "SPIKE value finite")
            E.prove(E.le(0, v), "SPIKE value >= 0")
            if cfg["bound"]:
                E.prove(E.le(v, 1), "SPIKE value <= 1")
        if E.prove(len(p.x) == len(q.x), "SPIKE symmetric (length)"):
            for k in range(len(p.y1)):
                E.prove(E.eq(p.y1[k], q.y1[k]), "SPIKE profile symmetric")
                E.prove(E.eq(p.y2[k], q.y2[k]), "SPIKE profile symmetric")
        d = pyspike.spike_distance(a, b, **kw)
        d2 = pyspike.spike_distance(b, a, **kw)
        E.observe("d", d)
        E.prove(E.finite(d) and E.finite(d2), "SPIKE distance finite")
        # The distance is the time average of the profile whose values were just proved to be
        # symmetric and in range, so range and symmetry of the scalar follow; the averaging
        # identity itself does not depend on the profile values (value abstraction) for the
        # Python route and is C05/C12's obligation for the single-pass .pyx kernel.
        T = te - ts
        if cfg["backend"] == "py":
            E.prove(E.eq_abs(d * T, hx.pwl_integral(list(p.x), list(p.y1), list(p.y2)), list(p.y1) + list(p.y2)),
                    "SPIKE distance = average of the (symmetric, in-range) profile")
            E.prove(E.eq_abs(d2 * T, hx.pwl_integral(list(q.x), list(q.y1), list(q.y2)), list(q.y1) + list(q.y2)),
                    "SPIKE distance = average of the (symmetric, in-range) profile")
        if cfg["n1"] <= 2:
            for other in (a, a.copy()):
                r = pyspike.spike_profile(a, other, **kw)
                for v in list(r.y1) + list(r.y2):
                    E.prove(E.eq(v, 0), "SPIKE profile of a train with itself is 0")
                E.prove(E.eq(pyspike.spike_distance(a, other, **kw), 0), "SPIKE distance of a train with itself is 0")
    elif what == "sync":
        mt = hx.param(E, "mt", cfg["mt"])
        p = pyspike.spike_sync_profile(a, b, max_tau=mt, **kw)
        q = pyspike.spike_sync_profile(b, a, max_tau=mt, **kw)
        E.observe("y", list(p.y))
        for k in range(len(p.y)):
            E.prove(hx.sand(E.le(0, p.y[k]), E.le(p.y[k], p.mp[k])), "sync entry between 0 and its multiplicity")
        if E.prove(len(p.y) == len(q.y), "sync symmetric (length)"):
            for k in range(len(p.y)):
                E.prove(hx.sand(E.eq(p.y[k], q.y[k]), E.eq(p.mp[k], q.mp[k]), E.eq(p.x[k], q.x[k])),
                        "sync profile symmetric")
        v = pyspike.spike_sync(a, b, max_tau=mt, **kw)
        w = pyspike.spike_sync(b, a, max_tau=mt, **kw)
        E.observe("sync", v)
        E.prove(E.finite(v), "SPIKE-Sync finite")
        E.prove(hx.sand(E.le(0, v), E.le(v, 1)), "SPIKE-Sync in [0,1]")
        E.prove(E.eq(v, w), "SPIKE-Sync symmetric")
        for other in (a, a.copy()):
            E.prove(E.eq(pyspike.spike_sync(a, other, max_tau=mt, **kw), 1), "SPIKE-Sync of a train with itself is 1")
            E.prove(E.eq(pyspike.spike_directionality(a, other, normalize=False, max_tau=mt, **kw), 0),
                    "un-normalised directionality of a train with itself is 0")
        if cfg["n1"] + cfg["n2"] > 0:
            F = pyspike.spike_train_order(a, b, max_tau=mt, **kw)
            E.observe("F", F)
            E.prove(E.finite(F), "spike train order finite")
            E.prove(hx.sand(E.le(-1, F), E.le(F, 1)), "spike train order in [-1,1]")
        if cfg["n1"] > 0:
            D = pyspike.spike_directionality(a, b, max_tau=mt, **kw)
            E.observe("D", D)
            E.prove(hx.sand(E.le(-1, D), E.le(D, 1)), "normalised directionality in [-1,1]")
    elif what == "interval":
        u = E.fresh("u")
        w = E.fresh("w")
        E.assume(u >= ts)
        E.assume(w <= te)
        E.assume(u < w)
        d = pyspike.isi_distance(a, b, interval=(u, w))
        E.observe("isi[u,w]", d)
        E.prove(E.finite(d), "ISI distance over a sub-interval finite")
        E.prove(hx.sand(E.le(0, d), E.le(d, 1)), "ISI distance over a sub-interval in [0,1]")
        E.prove(E.eq(d, pyspike.isi_distance(b, a, interval=(u, w))), "ISI distance over a sub-interval symmetric")
        v = pyspike.spike_sync(a, b, interval=(u, w))
        E.observe("sync[u,w]", v)
        E.prove(hx.sand(E.le(0, v), E.le(v, 1)), "SPIKE-Sync over a sub-interval in [0,1]")
        E.prove(E.eq(v, pyspike.spike_sync(b, a, interval=(u, w))), "SPIKE-Sync over a sub-interval symmetric")
