"""C04  Spike-train-order and directionality follow the leader/follower sign
convention (bivariate and multivariate relations)."""
import itertools

import numpy as np
import pyspike
from .. import hx

ID = "C04"
LEVEL = "model_checking"
BOUNDS = {
    "quick": "bivariate: two trains with 0..3 spikes each, n1+n2 <= 5; multivariate: 3 trains with 0..2 spikes "
             "each, at most 4 spikes in total; (max_tau, MRTS) in {(None, omitted), (symbolic>0, symbolic>0)}; py and pyx",
    "thorough": "bivariate: 0..4 spikes each, n1+n2 <= 6 (<= 5 with symbolic max_tau/MRTS; 4 spikes only py); multivariate: 3 trains with 0..2 spikes each (all), "
                "(3,2,1) in every order, 4 trains with 0..1 spikes; same parameter settings; py and pyx",
}
OUTSIDE = "larger trains / more trains; `indices` selections are the subject of C14"
ASSUMPTIONS = ["oracle: coincident pairs of hx.coincidences (C03's pairwise definition) plus the sign of s1[i]-s2[j]"]

PARAMS = [("none", "omit"), ("pos", "pos")]


def configs(tier):
    nb = 3 if tier == "quick" else 4
    tot = 5 if tier == "quick" else 6
    for be in ("py", "pyx"):
        for mt, mk in PARAMS:
            for n1 in range(nb + 1):
                for n2 in range(nb + 1):
                    if n1 + n2 > tot or (mk == "pos" and n1 + n2 > 5) or (max(n1, n2) == 4 and be == "pyx"):
                        continue
                    yield dict(name="bi-%s-mt%s-m%s-%d+%d" % (be, mt, mk, n1, n2), kind="bi", backend=be,
                               mt=mt, m=mk, ns=[n1, n2], cost=5 ** (n1 + n2) * (3 if mk == "pos" else 1),
                               split_forks=(7 if n1 + n2 >= 5 else None))
            # multivariate
            if tier == "quick":
                sizes = [ns for ns in itertools.product(range(3), repeat=3) if sum(ns) <= 4]
            else:
                sizes = [ns for ns in itertools.product(range(3), repeat=3)]
                sizes += list(set(itertools.permutations((3, 2, 1))))
                sizes += [ns for ns in itertools.product(range(2), repeat=4)]
            for ns in sizes:
                if mt == "pos" and sum(ns) > (3 if tier == "quick" else 4):
                    continue
                if sum(ns) >= 6 and be == "pyx":
                    continue
                yield dict(name="multi-%s-mt%s-m%s-%s" % (be, mt, mk, "+".join(map(str, ns))), kind="multi",
                           backend=be, mt=mt, m=mk, ns=list(ns), cost=6 ** sum(ns) * (3 if mk == "pos" else 1),
                           split_forks=(7 if sum(ns) >= 5 else None))


def controls(tier):
    yield dict(name="control-py-sign", kind="bi", backend="py", mt="none", m="omit", ns=[1, 1],
               mutations=[("pyspike.cython.directionality_python_backend",
                           "                d1[i] = -1\n                d2[j] = +1",
                           "                d1[i] = +1\n                d2[j] = -1")])
    yield dict(name="control-pyx-order-sign", kind="bi", backend="pyx", mt="none", m="omit", ns=[1, 1],
               mutations=[("pyx:cython_directionality", "a[n] = -1", "a[n] = 1")])


def pair_oracle(s1, s2, ts, te, mt, m):
    """per-spike directionality values of the pair: d1[i] = +1 if s1[i] leads
    its partner, -1 if it follows, 0 otherwise"""
    c1, c2, p1, p2 = hx.coincidences(s1, s2, ts, te, mt, m)
    d1 = [0] * len(s1)
    d2 = [0] * len(s2)
    for i in range(len(s1)):
        if c1[i]:
            j = p1[i]
            if s1[i] < s2[j]:
                d1[i] = 1
            elif s1[i] > s2[j]:
                d1[i] = -1
    for j in range(len(s2)):
        if c2[j]:
            i = p2[j]
            if s2[j] < s1[i]:
                d2[j] = 1
            elif s2[j] > s1[i]:
                d2[j] = -1
    return d1, d2


def order_profile_oracle(s1, s2, ts, te, d1, d2):
    ev = hx.merged_events(s1, s2)
    if not ev:
        return [ts, te], [1, 1], [1, 1]
    x = [ts]
    y = [None]
    mp = [None]
    for t, who in ev:
        x.append(t)
        if len(who) == 2:
            y.append(0)
            mp.append(2)
        else:
            tr, k = who[0]
            # both spikes of a pair carry +1 when train 1 leads
            y.append(d1[k] if tr == 0 else -d2[k])
            mp.append(1)
    x += [te]
    y += [y[-1]]
    mp += [mp[-1]]
    y[0] = y[1]
    mp[0] = mp[1]
    return x, y, mp


def program(E, cfg):
    ts, te = hx.edges(E)
    S = [hx.spikes(E, "abcd"[k], n, ts, te) for k, n in enumerate(cfg["ns"])]
    mt = hx.param(E, "mt", cfg["mt"])
    kw = {}
    m = 0.0
    if cfg["m"] != "omit":
        m = hx.param(E, "m", cfg["m"])
        kw["MRTS"] = m
    T = [hx.train(s, ts, te) for s in S]
    if cfg["kind"] == "bi":
        bivariate(E, S[0], S[1], T[0], T[1], ts, te, mt, m, kw)
    else:
        multivariate(E, S, T, ts, te, mt, m, kw)


def bivariate(E, s1, s2, a, b, ts, te, mt, m, kw):
    d1, d2 = pair_oracle(s1, s2, ts, te, mt, m)
    ox, oy, omp = order_profile_oracle(s1, s2, ts, te, d1, d2)
    p = pyspike.spike_train_order_profile(a, b, max_tau=mt, **kw)
    q = pyspike.spike_train_order_profile(b, a, max_tau=mt, **kw)
    E.observe("order.x", list(p.x))
    E.observe("order.y", list(p.y))
    E.observe("order.mp", list(p.mp))
    if E.prove(len(p.x) == len(ox) and len(p.y) == len(ox) and len(p.mp) == len(ox), "order profile length"):
        for k in range(len(ox)):
            E.prove(E.eq(p.x[k], ox[k]), "order profile time")
            E.prove(E.eq(p.y[k], oy[k]), "order profile value follows the sign convention")
            E.prove(E.eq(p.mp[k], omp[k]), "order profile multiplicity")
    nonempty = len(s1) + len(s2) > 0
    if E.prove(len(q.y) == len(p.y), "swapped order profile length") and nonempty:
        for k in range(len(p.y)):
            E.prove(E.eq(q.y[k], -p.y[k]), "swapping the trains negates the order profile")
    # per-spike values
    v = pyspike.spike_directionality_values([a, b], max_tau=mt, **kw)
    E.observe("values", [list(x) for x in v])
    if E.prove(len(v) == 2 and len(v[0]) == len(s1) and len(v[1]) == len(s2), "values shape"):
        for i in range(len(s1)):
            E.prove(E.eq(v[0][i], d1[i]), "directionality value (train 1)")
        for j in range(len(s2)):
            E.prove(E.eq(v[1][j], d2[j]), "directionality value (train 2)")
    # directionality scalar
    D = sum(d1)
    dn = pyspike.spike_directionality(a, b, normalize=False, max_tau=mt, **kw)
    dr = pyspike.spike_directionality(b, a, normalize=False, max_tau=mt, **kw)
    E.observe("D", dn)
    E.prove(E.eq(dn, D), "un-normalised directionality = sum of values")
    E.prove(E.eq(dr, -D), "swapping the trains negates the un-normalised directionality")
    if len(s1) > 0:
        dd = pyspike.spike_directionality(a, b, normalize=True, max_tau=mt, **kw)
        E.observe("Dn", dd)
        E.prove(E.eq(dd * len(s1), D), "normalised directionality = sum / spike count")
    # order scalar
    if nonempty:
        F = pyspike.spike_train_order(a, b, max_tau=mt, **kw)
        E.observe("F", F)
        E.prove(E.eq(F * sum(omp[1:-1]), sum(oy[1:-1])), "spike_train_order = summed profile / multiplicity")
        Fu = pyspike.spike_train_order(a, b, normalize=False, max_tau=mt, **kw)
        E.prove(E.eq(Fu, sum(oy[1:-1])), "un-normalised spike_train_order = summed profile")
    # matrix
    M = pyspike.spike_directionality_matrix([a, b], normalize=False, max_tau=mt, **kw)
    E.prove(hx.sand(E.eq(M[0, 1], D), E.eq(M[1, 0], -D), E.eq(M[0, 0], 0), E.eq(M[1, 1], 0)),
            "2x2 directionality matrix")


def multivariate(E, S, T, ts, te, mt, m, kw):
    K = len(S)
    vals = [[0] * len(s) for s in S]
    D = [[0] * K for _ in range(K)]
    for i in range(K):
        for j in range(i + 1, K):
            d1, d2 = pair_oracle(S[i], S[j], ts, te, mt, m)
            for k in range(len(d1)):
                vals[i][k] += d1[k]
            for k in range(len(d2)):
                vals[j][k] += d2[k]
            D[i][j] = sum(d1)
            D[j][i] = -sum(d1)
    v = pyspike.spike_directionality_values(T, max_tau=mt, **kw)
    E.observe("values", [list(x) for x in v])
    if E.prove(len(v) == K and all(len(v[k]) == len(S[k]) for k in range(K)), "values shape"):
        for k in range(K):
            for i in range(len(S[k])):
                E.prove(E.eq(v[k][i] * (K - 1), vals[k][i]),
                        "directionality value = sum over the other trains / (N-1)")
    M = pyspike.spike_directionality_matrix(T, normalize=False, max_tau=mt, **kw)
    E.observe("matrix", [list(r) for r in np.asarray(M)])
    for i in range(K):
        for j in range(K):
            E.prove(E.eq(M[i, j], D[i][j]), "matrix entry = bivariate un-normalised directionality")
            E.prove(E.eq(M[i, j], -M[j, i]), "matrix antisymmetric, zero diagonal")
    nsp = sum(len(s) for s in S)
    if nsp > 0:
        F = pyspike.spike_train_order(T, max_tau=mt, **kw)
        E.observe("F", F)
        upper = sum(D[i][j] for i in range(K) for j in range(i + 1, K))
        E.prove(E.eq(F * ((K - 1) * nsp), 2 * upper),
                "synfire indicator = 2 * upper triangle / ((N-1) * #spikes)")
        P = pyspike.spike_train_order_profile(T, max_tau=mt, **kw)
        c, mp = P.integral()
        E.prove(E.eq(mp, (K - 1) * nsp), "multivariate order profile multiplicity")
        E.prove(E.eq(c, 2 * upper), "multivariate order profile sum")
