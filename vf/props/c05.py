"""C05  Every scalar measure equals the average of its profile over the same interval."""
import pyspike
from .. import hx, stubs
from .c10 import integral_oracle

ID = "C05"
LEVEL = "model_checking"
BOUNDS = {
    "quick": "(a) real kernels, two trains, whole recording: ISI 0..3 spikes each (n1+n2<=5), SPIKE 0..2 each (plain and "
             "RI, MRTS omitted/symbolic), SPIKE-Sync and order 0..3 each (n1+n2<=4, max_tau/MRTS symbolic), py and pyx "
             "(pyx = separately written single-pass kernels vs profile integration); (b) generic multivariate route with "
             "an arbitrary symbolic pair profile per pair: 3 trains, <= 2 pieces (ISI/SPIKE-like) or <= 2 events "
             "(sync-like) per pair, interval None and a symbolic sub-interval u < w anywhere relative to the breakpoints, "
             "py and pyx add routines",
    "thorough": "(a) ISI 3+3, SPIKE n1+n2<=4 (max 3 each), sync/order 3+3; (b) 3 trains: ISI-like <= 3 pieces per pair (sub-interval: "
                "<= 7 pieces in total), sync-like <= (3,2,1) events (sub-interval: <= 5 in total), SPIKE-like as in quick",
}
OUTSIDE = "larger sizes; sub-interval averaging of real-kernel profiles is covered by composition with C10 (exact integral of any profile)"
ASSUMPTIONS = ["(b) stub: <measure>_profile_bi returns an arbitrary symbolic profile per pair (vf/stubs.py)",
               "SPIKE harnesses run in fork mode"]


def configs(tier):
    q = tier == "quick"
    for be in ("py", "pyx"):
        for n1 in range(4):
            for n2 in range(4):
                if n1 + n2 <= (5 if q else 6):
                    for mk in ("omit", "sym"):
                        yield dict(name="isi-%s-m%s-%d+%d" % (be, mk, n1, n2), what="isi", backend=be, m=mk,
                                   n1=n1, n2=n2, cost=4 ** (n1 + n2), split_forks=(8 if n1 + n2 >= 5 else None))
                if n1 + n2 <= (4 if q else 6):
                    for mt, mk in (("none", "omit"), ("pos", "pos")):
                        yield dict(name="sync-%s-mt%s-m%s-%d+%d" % (be, mt, mk, n1, n2), what="sync", backend=be, mt=mt,
                                   m=mk, n1=n1, n2=n2, cost=6 ** (n1 + n2) * (3 if mk == "pos" else 1),
                                   split_forks=(8 if n1 + n2 >= 4 else None))
                if max(n1, n2) <= (2 if q else 3) and n1 + n2 <= 4:
                    for ri in (0, 1):
                        for mk in ("omit", "sym"):
                            if q and mk == "sym" and n1 + n2 > 3:
                                continue
                            yield dict(name="spike-%s-ri%d-m%s-%d+%d" % (be, ri, mk, n1, n2), what="spike", backend=be,
                                       ri=ri, m=mk, n1=n1, n2=n2, fork=True, validate=3,
                                       cost=9 ** (n1 + n2) * (2 if mk == "sym" else 1),
                                       split_forks=(8 if n1 + n2 >= 3 else None))
        # (a'') two trains, symbolic averaging sub-interval (scalar route vs profile.avrg(interval))
        for n1 in range(3):
            for n2 in range(3):
                if n1 + n2 > 3:
                    continue
                for meas in ("isi", "sync", "spike"):
                    if meas == "spike" and n1 + n2 > 2:
                        continue
                    yield dict(name="sub-%s-%s-%d+%d" % (be, meas, n1, n2), what="sub", backend=be, meas=meas, n1=n1, n2=n2,
                               fork=(meas == "spike"), validate=3, cost=30 * 6 ** (n1 + n2),
                               split_forks=(7 if n1 + n2 >= 3 else None))
                    if meas != "spike" and (n1 + n2 <= 2 or (not q and be == "py")) and n1 + n2 >= 1:
                        # the same with keyword settings: every keyword must reach the scalar route with an
                        # interval exactly as it reaches the profile (interval x max_tau x MRTS)
                        yield dict(name="subkw-%s-%s-%d+%d" % (be, meas, n1, n2), what="sub", backend=be, meas=meas,
                                   n1=n1, n2=n2, kw=True, validate=3, cost=90 * 6 ** (n1 + n2),
                                   split_forks=(7 if n1 + n2 >= 3 else None))
        # (a') three trains, MRTS='auto': the multivariate scalar (mean of pair values, pooled
        # threshold) must equal the average of the multivariate profile with the same keyword
        for ns in ((1, 1, 1), (1, 0, 1), (2, 1, 0)) + (((2, 1, 1), (2, 2, 0)) if not q else ()):
            for meas in ("isi", "sync"):
                if meas == "isi" and ns != (1, 0, 1):
                    continue      # larger ISI cases with a symbolic root: measured undecided
                yield dict(name="auto3-%s-%s-%s" % (be, meas, "".join(map(str, ns))), what="auto3", backend=be, meas=meas,
                           ns=list(ns), validate=2, cost=40 * 8 ** sum(ns),
                           split_forks=(7 if sum(ns) >= 3 else None))
        # (b) Layer 2
        for kind in ("const", "lin", "disc"):
            shapes = [(1, 1, 1), (2, 1, 1), (1, 2, 2), (2, 2, 2), (2, 0, 1)]
            if not q:
                shapes += [(3, 2, 1), (3, 3, 2), (3, 3, 3)] if kind == "const" else [(3, 2, 1)] if kind == "disc" else []
            for sh in shapes:
                if kind != "disc" and 0 in sh:
                    continue
                for iv in ("none", "sub"):
                    if iv == "sub" and sum(sh) > ((4 if kind == "disc" else 5) if q else (5 if kind == "disc" else 7)):
                        continue
                    if kind == "lin" and iv == "sub" and sum(sh) > 3:
                        continue      # cubic identities with a symbolic interval: beyond nlsat (measured: undecided)
                    yield dict(name="multi-%s-%s-%s-%s" % (be, kind, "".join(map(str, sh)), iv), what="multi",
                               backend=be, kind=kind, shape=list(sh), iv=iv, K=3, fork=(kind == "lin"),
                               cost=30 * 4 ** sum(sh), split_forks=(7 if sum(sh) >= 5 else None), validate=3)


def controls(tier):
    yield dict(name="control-pyx-isi-distance", what="isi", backend="pyx", m="omit", n1=2, n2=1,
               mutations=[("pyx:cython_distances", "isi_value += curr_isi * (curr_t - last_t)",
                           "isi_value += curr_isi * (curr_t - t_start)")])
    yield dict(name="control-multi-norm", what="multi", backend="py", kind="const", shape=[1] * 6, iv="sub", K=4,
               mutations=[("pyspike.generic", "return avrg_dist/len(pairs)", "return avrg_dist/len(indices)")])
    yield dict(name="control-sync-pooled", what="multi", backend="py", kind="disc", shape=[1, 2, 1], iv="sub", K=3,
               mutations=[("pyspike.spike_sync", "        mp += m\n", "        mp += 1.0*m if m > 0 else 1.0\n")])


def program(E, cfg):
    what = cfg["what"]
    if what == "multi":
        return multi(E, cfg)
    if what == "auto3":
        return auto3(E, cfg)
    if what == "sub":
        return sub(E, cfg)
    ts, te = hx.edges(E)
    s1 = hx.spikes(E, "a", cfg["n1"], ts, te)
    s2 = hx.spikes(E, "b", cfg["n2"], ts, te)
    a = hx.train(s1, ts, te)
    b = hx.train(s2, ts, te)
    kw = {}
    if cfg.get("m") in ("sym", "pos"):
        kw["MRTS"] = hx.param(E, "m", cfg["m"])
    T = te - ts
    if what == "isi":
        d = pyspike.isi_distance(a, b, **kw)
        p = pyspike.isi_profile(a, b, **kw)
        E.observe("d", d)
        E.prove(E.eq(d, p.avrg()), "isi_distance = isi_profile.avrg()")
        E.prove(E.eq(d * T, hx.pwc_integral(list(p.x), list(p.y))), "isi_distance = time average of the profile")
    elif what == "spike":
        if cfg["ri"]:
            kw["RI"] = True
        d = pyspike.spike_distance(a, b, **kw)
        p = pyspike.spike_profile(a, b, **kw)
        E.observe("d", d)
        E.prove(E.eq(d, p.avrg()), "spike_distance = spike_profile.avrg()")
        if cfg["backend"] == "py":
            ok = E.eq_abs(d * T, hx.pwl_integral(list(p.x), list(p.y1), list(p.y2)), list(p.y1) + list(p.y2))
        else:
            ok = E.eq(d * T, hx.pwl_integral(list(p.x), list(p.y1), list(p.y2)))
        E.prove(ok, "spike_distance = time average of the profile")
    else:
        mt = hx.param(E, "mt", cfg["mt"])
        v = pyspike.spike_sync(a, b, max_tau=mt, **kw)
        p = pyspike.spike_sync_profile(a, b, max_tau=mt, **kw)
        c, m = p.integral()
        E.observe("sync", v)
        E.prove(E.eq(v, p.avrg()), "spike_sync = spike_sync_profile.avrg()")
        if cfg["n1"] + cfg["n2"] == 0:
            E.prove(E.eq(v, 1.0), "SPIKE-Sync is 1 when there is no spike")
        else:
            E.prove(E.eq(v * sum(p.mp[1:-1]), sum(p.y[1:-1])), "spike_sync = summed values / summed multiplicities")
        F = pyspike.spike_train_order(a, b, max_tau=mt, **kw)
        o = pyspike.spike_train_order_profile(a, b, max_tau=mt, **kw)
        E.observe("order", F)
        E.prove(E.finite(F), "spike_train_order finite")
        E.prove(E.eq(F, o.avrg()), "spike_train_order = spike_train_order_profile.avrg()")
        if cfg["n1"] + cfg["n2"] > 0:
            E.prove(E.eq(F * sum(o.mp[1:-1]), sum(o.y[1:-1])), "spike_train_order = summed values / summed multiplicities")


def sub(E, cfg):
    ts, te = hx.edges(E)
    s1 = hx.spikes(E, "a", cfg["n1"], ts, te)
    s2 = hx.spikes(E, "b", cfg["n2"], ts, te)
    a = hx.train(s1, ts, te)
    b = hx.train(s2, ts, te)
    u = E.fresh("u")
    w = E.fresh("w")
    E.assume(u >= ts)
    E.assume(w <= te)
    E.assume(u < w)
    iv = (u, w)
    kw = {}
    if cfg.get("kw"):
        kw["MRTS"] = hx.param(E, "m", "pos")
        if cfg["meas"] == "sync":
            kw["max_tau"] = hx.param(E, "mt", "pos")
    with hx.quiet():
        if cfg["meas"] == "isi":
            d = pyspike.isi_distance(a, b, interval=iv, **kw)
            p = pyspike.isi_profile(a, b, **kw)
            E.observe("d", d)
            E.prove(E.eq(d, p.avrg(iv)), "isi_distance(interval) = isi_profile.avrg(interval)")
        elif cfg["meas"] == "spike":
            d = pyspike.spike_distance(a, b, interval=iv)
            p = pyspike.spike_profile(a, b)
            E.observe("d", d)
            E.prove(E.eq(d, p.avrg(iv)), "spike_distance(interval) = spike_profile.avrg(interval)")
        else:
            v = pyspike.spike_sync(a, b, interval=iv, **kw)
            p = pyspike.spike_sync_profile(a, b, **kw)
            E.observe("sync", v)
            E.prove(E.eq(v, p.avrg(iv)), "spike_sync(interval) = spike_sync_profile.avrg(interval)")
            # values / multiplicities of the events strictly inside, 1 if there is none
            tot = 0
            mult = 0
            for k in range(1, len(p.x) - 1):
                if p.x[k] > u and p.x[k] < w:
                    tot = tot + p.y[k]
                    mult = mult + p.mp[k]
            if mult == 0:
                E.prove(E.eq(v, 1.0), "SPIKE-Sync is 1 when no spike falls into the averaging interval")
            else:
                E.prove(E.eq(v * mult, tot), "spike_sync(interval) = summed values / summed multiplicities inside the interval")


def auto3(E, cfg):
    ts, te = hx.edges(E)
    S = [hx.spikes(E, "abc"[k], n, ts, te) for k, n in enumerate(cfg["ns"])]
    T = [hx.train(s, ts, te) for s in S]
    if cfg["meas"] == "isi":
        d = pyspike.isi_distance(T, MRTS="auto")
        p = pyspike.isi_profile(T, MRTS="auto")
        E.observe("d", d)
        E.prove(E.eq(d, p.avrg()), "isi_distance(trains, MRTS='auto') = average of isi_profile(trains, MRTS='auto')")
    else:
        v = pyspike.spike_sync(T, MRTS="auto")
        p = pyspike.spike_sync_profile(T, MRTS="auto")
        E.observe("sync", v)
        E.prove(E.eq(v, p.avrg()), "spike_sync(trains, MRTS='auto') = average of spike_sync_profile(trains, MRTS='auto')")


def multi(E, cfg):
    K = cfg["K"]
    ts, te = hx.edges(E)
    pairs = [(i, j) for i in range(K) for j in range(i + 1, K)]
    pieces = dict(zip(pairs, cfg["shape"]))
    pp = stubs.PairProfiles(E, cfg["kind"], ts, te, pieces=pieces)
    trains = stubs.dummy_trains(K)
    iv = None
    if cfg["iv"] == "sub":
        u = E.fresh("u")
        w = E.fresh("w")
        E.assume(u >= ts)
        E.assume(w <= te)
        E.assume(u < w)
        iv = (u, w)
    kind = cfg["kind"]
    measure = {"const": "isi", "lin": "spike", "disc": "sync"}[kind]
    with stubs.stub_pair_profile(measure, pp), hx.quiet():
        if kind == "const":
            prof = pyspike.isi_profile(trains)
            dist = pyspike.isi_distance(trains, interval=iv) if (iv or cfg["backend"] == "py") else None
        elif kind == "lin":
            prof = pyspike.spike_profile(trains)
            dist = pyspike.spike_distance(trains, interval=iv) if (iv or cfg["backend"] == "py") else None
        else:
            prof = pyspike.spike_sync_profile(trains)
            dist = pyspike.spike_sync(trains, interval=iv) if (iv or cfg["backend"] == "py") else None
        pa = prof.avrg(iv)
    E.observe("profile.avrg", pa)
    E.observe("distance", dist)
    lo, hi = (ts, te) if iv is None else iv
    if kind in ("const", "lin"):
        fs = [pp.profile(i, j) for (i, j) in pairs]
        tot = 0
        for f in fs:
            tot = tot + integral_oracle(f, lo, hi)
        E.prove(E.eq(pa * (hi - lo) * len(pairs), tot),
                "average of the multivariate profile = mean of the pair profiles' averages")
        if dist is not None:
            E.prove(E.eq(dist, pa), "multivariate distance = average of the multivariate profile")
    else:
        v = 0
        m = 0
        cnt = 0
        for (i, j) in pairs:
            x, y, mp = pp.get(i, j)
            if len(x) == 2:
                continue
            for k in range(1, len(x) - 1):
                inside = True if iv is None else (x[k] > lo and x[k] < hi)
                if inside:
                    v = v + y[k]
                    m = m + mp[k]
                    cnt += 1
        if cnt == 0:
            E.prove(E.eq(pa, 1.0), "SPIKE-Sync profile average is 1 when no event is inside the interval")
            if dist is not None:
                E.prove(E.eq(dist, 1.0), "SPIKE-Sync is 1 when no spike falls into the interval")
        else:
            E.prove(E.eq(pa * m, v), "average of the multivariate sync profile = pooled coincidences / multiplicities")
            if dist is not None:
                E.prove(E.eq(dist * m, v), "multivariate SPIKE-Sync = pooled ratio")
