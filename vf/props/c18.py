"""C18  Every valid input yields a finite, well-formed result without error."""
import itertools

import numpy as np
import pyspike
from .. import hx
from .c13 import flatten

ID = "C18"
LEVEL = "model_checking"
BOUNDS = {
    "quick": "every public profile/scalar/matrix function (23 functions) on 2 trains with 0..2 spikes each (all 9 size "
             "pairs; positions symbolic, so the solver places spikes on the edges and on each other) and on 3 trains "
             "with 0..1 spikes each; keyword settings: defaults and (MRTS symbolic > 0, max_tau symbolic > 0, RI for SPIKE); "
             "whole recording and a symbolic sub-interval where the function accepts one; py and pyx",
    "thorough": "2 trains with 0..3 spikes (n1+n2 <= 4; keyword settings or a sub-interval up to 3 spikes in total, both together up to 2), 3 trains (<= 1 spike each, or <= 2 spikes in total), 4 trains with <= 2 spikes in total",
}
OUTSIDE = "larger inputs; plotting helpers; optimal_spike_train_sorting (needs the compiled extension)"
ASSUMPTIONS = ["non-finite = result of a division whose denominator can be 0 on the path (poison) or nan/inf in floats",
               "well-formed: time axis starts at t_start, ends at t_end, strictly increasing (discrete profiles: "
               "non-decreasing with the two edge entries), arrays of consistent length"]

FUNCS = [
    # name, accepts interval, kw kinds
    ("isi_profile", False, "m"), ("isi_distance", True, "m"), ("isi_distance_matrix", True, "m"),
    ("spike_profile", False, "mr"), ("spike_distance", True, "mr"), ("spike_distance_matrix", True, "mr"),
    ("spike_sync_profile", False, "mt"), ("spike_sync", True, "mt"), ("spike_sync_matrix", True, "mt"),
    ("spike_train_order_profile", False, "mt"), ("spike_train_order", False, "mt"),
    ("spike_directionality_values", False, "mt"), ("spike_directionality_matrix", False, "mt"),
    ("spike_directionality", False, "mt"), ("filter_by_spike_sync", False, "mt"),
    ("isi_profile_multi", False, "m"), ("isi_distance_multi", True, "m"),
    ("spike_profile_multi", False, "mr"), ("spike_distance_multi", True, "mr"),
    ("spike_sync_profile_multi", False, "mt"), ("spike_sync_multi", True, "mt"),
    ("spike_train_order_profile_multi", False, "mt"), ("spike_train_order_multi", False, "mt"),
]


def configs(tier):
    q = tier == "quick"
    sizes = [ns for ns in itertools.product(range(3), repeat=2)]
    sizes += [ns for ns in itertools.product(range(2), repeat=3)]
    if not q:
        # (the first thorough set - all keyword settings x sub-interval up to 4 spikes in total, 3 trains with
        # 2 spikes, 4 trains - did not finish in a 25-minute trial on 10 cores; this is the trimmed set)
        sizes = [ns for ns in itertools.product(range(4), repeat=2) if sum(ns) <= 4]
        sizes += [ns for ns in itertools.product(range(3), repeat=3) if sum(ns) <= 3 and max(ns) <= 1 or sum(ns) <= 2]
        sizes += [ns for ns in itertools.product(range(2), repeat=4) if sum(ns) <= 2]
        sizes = list(dict.fromkeys(sizes))
    for be in ("py", "pyx"):
        for (fn, iv, kk) in FUNCS:
            for ns in sizes:
                if fn == "spike_directionality" and len(ns) != 2:
                    continue
                for kwmode in ("default", "kw", "auto"):
                    for ivm in (("none", "sub") if iv else ("none",)):
                        if q and kwmode != "default" and ivm == "sub":
                            continue
                        if kwmode == "auto" and sum(ns) > 2:
                            continue
                        if not q and (kwmode != "default" or ivm == "sub") and sum(ns) > 3:
                            continue
                        if not q and kwmode != "default" and ivm == "sub" and sum(ns) > 2:
                            continue
                        if q and kwmode == "kw" and sum(ns) > 3:
                            continue
                        spike = fn.startswith("spike_pro") or fn.startswith("spike_dist")
                        if spike and q and sum(ns) > 3:
                            continue
                        yield dict(name="%s-%s-%s-%s-%s" % (be, fn, "+".join(map(str, ns)), kwmode, ivm),
                                   backend=be, fn=fn, ns=list(ns), kw=(kk if kwmode == "kw" else "A" if kwmode == "auto" else ""), iv=ivm,
                                   fork=spike, validate=2, cost=7 ** sum(ns) * (3 if kwmode == "kw" else 1) * (3 if ivm == "sub" else 1),
                                   split_forks=(8 if sum(ns) >= 4 else None))


def controls(tier):
    yield dict(name="control-py-sync-empty-guard", backend="py", fn="spike_sync", ns=[0, 0], kw="", iv="none",
               mutations=[("pyspike.spike_sync", "    if mp == 0:\n        return 1.0\n    else:\n        return 1.0*c/mp",
                           "    return 1.0*c/mp")])
    yield dict(name="control-pyx-isi-onespike", backend="pyx", fn="isi_profile", ns=[1, 1], kw="", iv="none",
               mutations=[("pyx:cython_profiles",
                           "nu1 = fmax(s1[0]-t_start, s1[1]-s1[0]) if N1 > 1 else s1[0]-t_start",
                           "nu1 = fmax(s1[0]-t_start, s1[1]-s1[0])")])


def program(E, cfg):
    ts, te = hx.edges(E)
    S = [hx.spikes(E, "abcd"[k], n, ts, te) for k, n in enumerate(cfg["ns"])]
    T = [hx.train(s, ts, te) for s in S]
    kw = {}
    if "A" in cfg["kw"]:
        kw["MRTS"] = "auto"
    if "m" in cfg["kw"]:
        kw["MRTS"] = hx.param(E, "m", "pos")
    if "t" in cfg["kw"]:
        kw["max_tau"] = hx.param(E, "mt", "pos")
    if "r" in cfg["kw"]:
        kw["RI"] = True
    if cfg["iv"] == "sub":
        u = E.fresh("u")
        w = E.fresh("w")
        E.assume(u >= ts)
        E.assume(w <= te)
        E.assume(u < w)
        kw["interval"] = (u, w)
    fn = cfg["fn"]
    f = getattr(pyspike, fn)
    with hx.quiet():
        if fn == "filter_by_spike_sync":
            thr = E.fresh("thr")
            E.assume(thr >= 0)
            E.assume(thr <= 1)
            res = f(T, thr, return_removed_spikes=True, **kw)
        elif fn == "spike_directionality":
            res = [f(T[0], T[1], **kw), f(T[0], T[1], normalize=False, **kw)]
        elif len(T) == 2 and not fn.endswith("_multi") and not fn.endswith("_matrix") \
                and fn != "spike_directionality_values":
            res = f(T[0], T[1], **kw)
        else:
            res = f(T, **kw)
    flat = flatten(res)
    E.observe("result", [v for _, v in flat][:30])
    for lbl, v in flat:
        if lbl.endswith(".len") or lbl.endswith(".shape"):
            continue
        E.prove(E.finite(v), "%s returns finite numbers" % fn)
    well_formed(E, res, ts, te, fn)


def well_formed(E, res, ts, te, fn):
    if hasattr(res, "x"):
        x = list(res.x)
        disc = hasattr(res, "mp")
        n = len(x)
        if disc:
            E.prove(len(res.y) == n and len(res.mp) == n and n >= 2, "%s: arrays of consistent length" % fn)
        elif hasattr(res, "y1"):
            E.prove(len(res.y1) == n - 1 and len(res.y2) == n - 1 and n >= 2, "%s: arrays of consistent length" % fn)
        else:
            E.prove(len(res.y) == n - 1 and n >= 2, "%s: arrays of consistent length" % fn)
        E.prove(E.eq(x[0], ts), "%s: time axis starts at t_start" % fn)
        E.prove(E.eq(x[-1], te), "%s: time axis ends at t_end" % fn)
        for k in range(n - 1):
            if disc:
                E.prove(E.le(x[k], x[k + 1]), "%s: time axis non-decreasing" % fn)
                if 1 <= k < n - 2:
                    E.prove(E.lt(x[k], x[k + 1]), "%s: event times strictly increasing" % fn)
            else:
                E.prove(E.lt(x[k], x[k + 1]), "%s: time axis strictly increasing" % fn)
        if disc:
            for k in range(n):
                E.prove(E.lt(0, res.mp[k]), "%s: positive multiplicities" % fn)
    elif isinstance(res, np.ndarray) and res.ndim == 2:
        E.prove(res.shape[0] == res.shape[1], "%s: square matrix" % fn)
