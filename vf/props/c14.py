"""C14  All call forms and index selections of a measure agree."""
import itertools
import sys

import numpy as np
import pyspike
from .. import hx, stubs
from .c13 import flatten

ID = "C14"
LEVEL = "model_checking"
BOUNDS = {
    "quick": "(i) kernels stubbed by fresh symbols per ordered pair of trains: list of 4 trains, EVERY index list of size "
             ">= 2 in every order (60 lists), 13 measure functions (profiles, scalars, matrices, directionality "
             "values/matrix), call forms f(a,b) / f([a,b]) / f(L, indices=[i,j]) / f(*sub) / f(sub) / f(L, indices=idx), "
             "interval/max_tau/MRTS/RI passed as distinct symbols and required to reach the kernel unchanged; py and pyx; "
             "(ii) real kernels: 3 trains with <= 1 spike each, index lists [2,0], [1,2], [2,1,0], [1,0,2]",
    "thorough": "(i) list of 5 trains, every index list of size >= 2 in every order (320 lists); (ii) real kernels, 3 trains with <= 2 spikes (sum <= 4)",
}
OUTSIDE = "lists of more than 5 trains; repeated indices"
ASSUMPTIONS = ["(i) stub: each bivariate kernel returns a one-piece/one-event symbolic profile keyed by the ordered pair "
               "of (dummy) trains, so results are compared as expressions in the pair symbols (vf/stubs.py)"]

PROFILE_MEASURES = {
    # name: (stub measure, kind, accepts *args, kw names)
    "isi_profile": ("isi", "const", True, ("MRTS",)),
    "isi_distance": ("isi", "const", True, ("MRTS", "interval")),
    "isi_distance_matrix": ("isi", "const", False, ("MRTS", "interval")),
    "spike_profile": ("spike", "lin", True, ("MRTS", "RI")),
    "spike_distance": ("spike", "lin", True, ("MRTS", "RI", "interval")),
    "spike_distance_matrix": ("spike", "lin", False, ("MRTS", "RI", "interval")),
    "spike_sync_profile": ("sync", "disc", True, ("MRTS", "max_tau")),
    "spike_sync": ("sync", "disc", True, ("MRTS", "max_tau", "interval")),
    "spike_sync_matrix": ("sync", "disc", False, ("MRTS", "max_tau", "interval")),
    "spike_train_order_profile": ("order", "disc", True, ("MRTS", "max_tau")),
    "spike_train_order": ("order", "disc", True, ("MRTS", "max_tau")),
    "spike_directionality_values": ("dir", None, True, ("MRTS", "max_tau")),
    "spike_directionality_matrix": ("dir", None, False, ("MRTS", "max_tau")),
}


def configs(tier):
    K = 4 if tier == "quick" else 5
    for be in ("py", "pyx"):
        for fn in PROFILE_MEASURES:
            for kwmode in ("plain", "kw"):
                yield dict(name="stub-%s-%s-%s" % (be, fn, kwmode), what="stub", backend=be, fn=fn, K=K, kwmode=kwmode,
                           cost=100, validate=1)
        sizes = [(1, 1, 1), (1, 0, 1)] if tier == "quick" else \
            [ns for ns in itertools.product(range(3), repeat=3) if sum(ns) <= 4 and max(ns) >= 1]
        for ns in sizes:
            for fn in PROFILE_MEASURES:
                yield dict(name="real-%s-%s-%s" % (be, fn, "".join(map(str, ns))), what="real", backend=be, fn=fn,
                           ns=list(ns), fork=fn.startswith("spike_pro") or fn.startswith("spike_dist") or fn.startswith("isi_"),
                           cost=30 * 8 ** sum(ns), validate=2, split_forks=(7 if sum(ns) >= 3 else None))
                if not (fn.startswith("spike_pro") or fn.startswith("spike_dist")) and sum(ns) <= 3 and max(ns) <= 1:
                    # MRTS='auto' must be honoured identically through every call form; one index
                    # list per configuration (each list has its own threshold = its own sqrt symbol)
                    for idx in ([2, 0], [1, 2], [2, 1, 0]):
                        if tier == "quick":
                            if fn not in ("isi_distance", "spike_sync", "spike_train_order", "spike_sync_profile",
                                          "spike_directionality_values", "isi_distance_matrix",
                                          "spike_directionality_matrix"):
                                continue
                            if len(idx) == 3 and sum(ns) > 2:
                                continue
                        yield dict(name="real-auto-%s-%s-%s-idx%s" % (be, fn, "".join(map(str, ns)), "".join(map(str, idx))),
                                   what="real", backend=be, fn=fn, ns=list(ns), auto=True, idx=idx, fork=fn.startswith("isi_"),
                                   cost=60 * 8 ** sum(ns), validate=2, split_forks=(7 if sum(ns) >= 3 else None))

def controls(tier):
    yield dict(name="control-position-vs-index", what="stub", backend="py", fn="isi_distance_matrix", K=4, kwmode="plain",
               mutations=[("pyspike.generic",
                           "d = dist_function(spike_trains[indices[i]], spike_trains[indices[j]],",
                           "d = dist_function(spike_trains[i], spike_trains[indices[j]],")])
    yield dict(name="control-kw-dropped", what="stub", backend="py", fn="spike_sync", K=4, kwmode="kw",
               mutations=[("pyspike.spike_sync",
                           "        c, m = _spike_sync_values(spike_trains[i], spike_trains[j],\n                                  interval, max_tau, ",
                           "        c, m = _spike_sync_values(spike_trains[i], spike_trains[j],\n                                  interval, None, ")])


def index_lists(K):
    for r in range(2, K + 1):
        for idx in itertools.permutations(range(K), r):
            yield list(idx)


class DirStub(object):
    """stub for the directionality kernel: symbolic per-spike values keyed by
    the ordered pair"""

    def __init__(self, E):
        self.E = E
        self.data = {}
        self.calls = []

    def __call__(self, s1, s2, t_start, t_end, max_tau, MRTS=0.):
        i = int(round(float(s1[0]))) - 1
        j = int(round(float(s2[0]))) - 1
        self.calls.append(((i, j), (), dict(max_tau=max_tau, MRTS=MRTS)))
        if (i, j) not in self.data:
            a = self.E.fresh("d%d%d_1" % (i, j))
            b = self.E.fresh("d%d%d_2" % (i, j))
            self.data[(i, j)] = (a, b)
        a, b = self.data[(i, j)]
        mk = (lambda v: np.array([v], dtype=object)) if self.E.mode == "sym" else (lambda v: np.array([v], dtype=float))
        return mk(a), mk(b)


def same_result(E, r1, r2, what):
    f1 = flatten(r1)
    f2 = flatten(r2)
    if not E.prove(len(f1) == len(f2) and all(a[0] == b[0] for a, b in zip(f1, f2)), what + ": same structure"):
        return
    for (l1, v1), (l2, v2) in zip(f1, f2):
        if l1.endswith(".len") or l1.endswith(".shape"):
            E.prove(v1 == v2, what + ": same shape")
        elif not E.finite(v1) and not E.finite(v2):
            continue        # non-finite in both call forms: totality is C18's subject
        else:
            E.prove(E.eq(v1, v2), what + ": same values")


def call_forms(E, f, L, idx, kw, star):
    sub = [L[i] for i in idx]
    note = ""
    if kw.get("MRTS") == "auto":
        note = " [indices=%s of %d trains, MRTS='auto']" % (list(idx), len(L))
    with hx.quiet():
        rA = f(L, indices=list(idx), **kw)
        rB = f(sub, **kw)
        same_result(E, rA, rB, "f(L, indices=idx) = f(sub-list)" + note)
        if star:
            rC = f(*sub, **kw)
            same_result(E, rC, rB, "f(*sub) = f(sub-list)" + note)


def program(E, cfg):
    fn = cfg["fn"]
    meas, kind, star, kwnames = PROFILE_MEASURES[fn]
    f = getattr(pyspike, fn)
    if cfg["what"] == "real":
        ts, te = hx.edges(E)
        S = [hx.spikes(E, "abc"[k], n, ts, te) for k, n in enumerate(cfg["ns"])]
        L = [hx.train(s, ts, te) for s in S]
        for idx in ([cfg["idx"]] if cfg.get("idx") else ([2, 0], [1, 2], [2, 1, 0], [1, 0, 2])):
            call_forms(E, f, L, idx, {"MRTS": "auto"} if cfg.get("auto") else {}, star)
        E.observe("done", 1)
        return
    K = cfg["K"]
    ts, te = hx.edges(E)
    L = stubs.dummy_trains(K)
    kw = {}
    if cfg["kwmode"] == "kw":
        for nm in kwnames:
            if nm == "interval":
                u = E.fresh("u")
                w = E.fresh("w")
                E.assume(u >= ts)
                E.assume(w <= te)
                E.assume(u < w)
                kw["interval"] = (u, w)
            elif nm == "RI":
                kw["RI"] = True
            else:
                kw[nm] = E.fresh("kw_" + nm)
                E.assume(kw[nm] > 0)
    if cfg["backend"] == "pyx" and "interval" in kwnames and "interval" not in kw:
        # whole-recording scalars would call the single-pass kernels on the dummy trains
        u = E.fresh("u")
        w = E.fresh("w")
        E.assume(u >= ts)
        E.assume(w <= te)
        E.assume(u < w)
        kw["interval"] = (u, w)
    if meas == "dir":
        stub = DirStub(E)
        pp = stub
        if cfg["backend"] == "pyx":
            mod = sys.modules["pyspike.cython.cython_directionality"]
            names = ["spike_directionality_profiles_cython"]
        else:
            mod = sys.modules["pyspike.cython.directionality_python_backend"]
            names = ["spike_directionality_profile_python"]
        saved = [(n, getattr(mod, n)) for n in names]
        for n in names:
            setattr(mod, n, stub)
        extra = None
        if cfg["backend"] == "pyx":
            # the matrix uses the single-pass scalar kernel: stub it consistently
            def scal(s1, s2, t_start, t_end, max_tau, MRTS=0.):
                a, b = stub(s1, s2, t_start, t_end, max_tau, MRTS)
                return a[0]
            extra = ("spike_directionality_cython", getattr(mod, "spike_directionality_cython"))
            setattr(mod, "spike_directionality_cython", scal)
        try:
            run_stubbed(E, f, L, K, kw, star, pp, fn, kwnames)
        finally:
            for n, o in saved:
                setattr(mod, n, o)
            if extra:
                setattr(mod, extra[0], extra[1])
    else:
        pp = stubs.PairProfiles(E, kind, ts, te, P=1, symmetric=False, shared_events=True)
        with stubs.stub_pair_profile(meas, pp):
            run_stubbed(E, f, L, K, kw, star, pp, fn, kwnames)


def run_stubbed(E, f, L, K, kw, star, pp, fn, kwnames):
    n = 0
    for idx in index_lists(K):
        call_forms(E, f, L, idx, kw, star)
        n += 1
        if len(idx) == 2 and star:
            a, b = L[idx[0]], L[idx[1]]
            with hx.quiet():
                same_result(E, f(a, b, **kw), f([a, b], **kw), "f(a,b) = f([a,b])")
                same_result(E, f(a, b, **kw), f(L, indices=list(idx), **kw), "f(a,b) = f(L, indices=[i,j])")
    E.observe("index lists", n)
    # keyword arguments must reach the kernel unchanged
    for (pair, args, kws) in pp.calls:
        for nm in ("MRTS", "max_tau", "RI"):
            if nm in kw:
                got = kws.get(nm)
                if got is None and args and nm == "max_tau":
                    got = args[0]
                E.prove(got is kw[nm] or (E.mode == "concrete" and got == kw[nm]),
                        "%s reaches the bivariate kernel unchanged" % nm)
    if not (fn == "spike_train_order" and E_backend() == "pyx"):
        E.prove(len(pp.calls) > 0, "kernel stub was reached")


def E_backend():
    from .. import loader
    return loader._state["backend"]
