"""C10  Integral, average and evaluation of piecewise functions are exact."""
import numpy as np
import pyspike
from .. import hx
from .c09 import mkfun, one_sided

ID = "C10"
LEVEL = "model_checking"
BOUNDS = {
    "quick": "piecewise-constant and piecewise-linear functions with 1..4 pieces, arbitrary real breakpoints and "
             "values; symbolic interval ends a < b (plus a split point c and a second interval) anywhere in the "
             "support; symbolic evaluation times (scalar and list of two), also with integer-valued function values; "
             "query/modify/query sequences on one object (QMQ, QAQ, QMAQ, QAMQ, QCMQ, QQ, MQMQ; 1..3 pieces, add only with <= 2)",
    "thorough": "1..8 pieces, same symbolic interval ends / times",
}
OUTSIDE = "more pieces; lists of more than two intervals / times; float rounding"
ASSUMPTIONS = ["oracle: sum over pieces of overlap length x value (trapezoid for linear pieces) with an "
               "independent one-sided evaluator"]


def configs(tier):
    P = 4 if tier == "quick" else 8
    for kind in ("const", "lin"):
        for p in range(1, P + 1):
            for what in ("interval", "additive", "two", "eval", "plot", "bounds"):
                if what == "bounds" and kind == "lin":
                    continue
                yield dict(name="%s-%s-%d" % (what, kind, p), what=what, backend="py", kind=kind, P=p,
                           fork=(kind == "lin"), cost=(p + 1) ** 3 * (3 if what in ("additive", "two") else 1),
                           split_forks=(6 if p >= 5 and what in ("additive", "two") else None))
        for p in (2, 3):
            # integer-valued function values (e.g. the spike counts of a PSTH): in the float replays numpy
            # builds integer-typed arrays from them
            yield dict(name="evalint-%s-%d" % (kind, p), what="eval", backend="py", kind=kind, P=p, integer=True,
                       fork=(kind == "lin"), validate=40, cost=(p + 1) ** 3)
        # query / modify / query sequences on ONE object (results must never depend on what was asked
        # before: cached or lazily computed state that a later in-place operation forgets to refresh)
        for p in ((1, 2, 3) if tier == "quick" else (1, 2, 3, 4)):
            for seq in HIST_SEQS:
                if tier == "quick" and p == 3 and "A" in seq:
                    continue
                yield dict(name="hist-%s-%d-%s" % (kind, p, seq), what="hist", backend="py", kind=kind, P=p,
                           seq=seq, fork=(kind == "lin"), cost=(p + 1) ** 3 * 4 * len(seq))


# Q = integral(a,b), integral(), avrg(a,b), f(t) checked against the oracle on the current state;
# M = mul_scalar(symbolic), A = add(symbolic 2-piece function), C = continue on a copy
HIST_SEQS = ["QMQ", "QAQ", "QMAQ", "QAMQ", "QCMQ", "QQ", "MQMQ"]


def controls(tier):
    yield dict(name="control-const-side", what="interval", backend="py", kind="const", P=2,
               mutations=[("pyspike.PieceWiseConstFunc",
                           "end_ind = np.searchsorted(self.x, interval[1], side='left')-1",
                           "end_ind = np.searchsorted(self.x, interval[1], side='right')-1")])
    yield dict(name="control-lin-eval-breakpoint", what="eval", backend="py", kind="lin", P=2, fork=True,
               mutations=[("pyspike.PieceWiseLinFunc",
                           "return 0.5 * (self.y1[ind-1] + self.y2[ind-2])",
                           "return 0.5 * (self.y1[ind-1] + self.y2[ind-1])")])


def integral_oracle(f, a, b):
    lin = hasattr(f, "y1")
    x = list(f.x)
    tot = 0
    for k in range(len(x) - 1):
        lo = x[k] if x[k] > a else a
        hi = x[k + 1] if x[k + 1] < b else b
        if lo < hi:
            if lin:
                tot = tot + (one_sided(f, lo, +1) + one_sided(f, hi, -1)) * 0.5 * (hi - lo)
            else:
                tot = tot + f.y[k] * (hi - lo)
    return tot


def value_oracle(f, t):
    x = list(f.x)
    if t == x[0]:
        return one_sided(f, t, +1)
    if t == x[-1]:
        return one_sided(f, t, -1)
    for k in range(1, len(x) - 1):
        if t == x[k]:
            return 0.5 * (one_sided(f, t, -1) + one_sided(f, t, +1))
    return one_sided(f, t, +1)


def sub_interval(E, tag, ts, te):
    a = E.fresh(tag + "a")
    b = E.fresh(tag + "b")
    E.assume(a >= ts)
    E.assume(b <= te)
    E.assume(a < b)
    return a, b


def program(E, cfg):
    ts, te = hx.edges(E)
    f = mkfun(E, "f", cfg["P"], ts, te, cfg["kind"], integer=cfg.get("integer", False))
    what = cfg["what"]
    with hx.quiet():
        if what == "interval":
            a, b = sub_interval(E, "", ts, te)
            I = f.integral((a, b))
            E.observe("integral", I)
            E.prove(E.eq(I, integral_oracle(f, a, b)), "integral over [a,b] = exact Riemann integral")
            A = f.avrg((a, b))
            E.observe("avrg", A)
            E.prove(E.eq(A * (b - a), integral_oracle(f, a, b)), "avrg = integral / length")
            full = f.integral()
            E.prove(E.eq(full, integral_oracle(f, ts, te)), "integral without interval = integral over the support")
            E.prove(E.eq(f.integral((ts, te)), full), "integral over the full support = integral without interval")
            E.prove(E.eq(f.avrg() * (te - ts), full), "avrg without interval")
        elif what == "hist":
            a, b = sub_interval(E, "", ts, te)
            t = E.fresh("t")
            E.assume(t >= ts)
            E.assume(t <= te)
            nq = 0
            nm = 0
            for op in cfg["seq"]:
                if op == "Q":
                    nq += 1
                    tag = "query %d of %s: " % (nq, cfg["seq"])
                    I = f.integral((a, b))
                    E.observe("integral#%d" % nq, I)
                    E.prove(E.eq(I, integral_oracle(f, a, b)), tag + "integral over [a,b] = exact integral of the current function")
                    full = f.integral()
                    E.observe("full#%d" % nq, full)
                    E.prove(E.eq(full, integral_oracle(f, ts, te)), tag + "integral without interval")
                    E.prove(E.eq(f.integral((ts, te)), full), tag + "integral over the full support = integral without interval")
                    E.prove(E.eq(f.avrg((a, b)) * (b - a), integral_oracle(f, a, b)), tag + "avrg = integral / length")
                    E.prove(E.eq(f.avrg() * (te - ts), full), tag + "avrg without interval")
                    E.prove(E.eq(f(t), value_oracle(f, t)), tag + "f(t)")
                elif op == "M":
                    c = E.fresh("c%d" % nm)
                    nm += 1
                    f.mul_scalar(c)
                elif op == "A":
                    g = mkfun(E, "g%d" % nm, 2, ts, te, cfg["kind"])
                    nm += 1
                    f.add(g)
                else:
                    old = f
                    f = f.copy()
                    E.prove(E.eq(old.integral(), f.integral()), "copy has the same integral")
        elif what == "additive":
            a, b = sub_interval(E, "", ts, te)
            c = E.fresh("c")
            E.assume(a < c)
            E.assume(c < b)
            I1 = f.integral((a, c))
            I2 = f.integral((c, b))
            I = f.integral((a, b))
            E.observe("parts", [I1, I2, I])
            E.prove(E.eq(I1 + I2, I), "integrals over adjacent intervals add up")
        elif what == "two":
            a, b = sub_interval(E, "p", ts, te)
            c, d = sub_interval(E, "q", ts, te)
            A = f.avrg([(a, b), (c, d)])
            E.observe("avrg2", A)
            E.prove(E.eq(A * ((b - a) + (d - c)), integral_oracle(f, a, b) + integral_oracle(f, c, d)),
                    "avrg over a list of intervals = summed integrals / summed lengths")
        elif what == "eval":
            t = E.fresh("t")
            u = E.fresh("u")
            for z in (t, u):
                E.assume(z >= ts)
                E.assume(z <= te)
            v = f(t)
            E.observe("f(t)", v)
            E.prove(E.eq(v, value_oracle(f, t)), "f(t): piece value, midpoint rule at breakpoints, one-sided at the ends")
            vs = f([t, u])
            E.observe("f([t,u])", list(vs))
            E.prove(len(vs) == 2, "list evaluation length")
            E.prove(E.eq(vs[0], value_oracle(f, t)), "f([t,u])[0] = f(t)")
            E.prove(E.eq(vs[1], value_oracle(f, u)), "f([t,u])[1] = f(u)")
        elif what == "plot":
            xp, yp = f.get_plottable_data()
            x = list(f.x)
            n = len(x) - 1
            ex = [x[0]]
            ey = []
            for k in range(n):
                ex.append(x[k + 1])
                if k + 1 < n:
                    ex.append(x[k + 1])
                if hasattr(f, "y1"):
                    ey += [f.y1[k], f.y2[k]]
                else:
                    ey += [f.y[k], f.y[k]]
            E.observe("xp", list(xp))
            E.observe("yp", list(yp))
            if E.prove(len(xp) == len(ex) and len(yp) == len(ey) and len(xp) == len(yp), "plottable array lengths"):
                for k in range(len(ex)):
                    E.prove(E.eq(xp[k], ex[k]), "plottable x traces the pieces")
                    E.prove(E.eq(yp[k], ey[k]), "plottable y traces the pieces")
        elif what == "bounds":
            a = E.fresh("a")
            b = E.fresh("b")
            E.assume(a != b)       # the property speaks about a < b; a == b is outside it
            bad = hx.sor(a > b, a < ts, b > te)
            raised = False
            try:
                I = f.integral((a, b))
            except ValueError:
                raised = True
            if raised:
                E.prove(bad, "ValueError only for an interval outside the support or inverted")
            else:
                E.prove(hx.snot(bad), "invalid interval is rejected with ValueError")
                if a < b:
                    E.prove(E.eq(I, integral_oracle(f, a, b)), "integral over a valid interval")
