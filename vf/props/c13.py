"""C13  Inputs are normalised before use and never modified."""
import numpy as np
import pyspike
from .. import hx

ID = "C13"
LEVEL = "model_checking"
BOUNDS = {
    "quick": "reconcile_spike_trains: 2 trains with 0..3 unordered, possibly repeated real spike times each (n1+n2<=5) "
             "and different real edges; 3 trains with <= 2,1,1; every public measure entry point (31 call forms): first train "
             "with 2 unordered/repeated times, second with 0..2 valid spikes, optional third valid train, on common "
             "edges; py and pyx; caller's arrays and edges compared before/after every call; call sequences on the same "
             "objects (a call, four other measures in bivariate and list form, the same call again) for 7 entry points, "
             "trains with 0..2 spikes, with and without Reconcile",
    "thorough": "reconcile: 2 trains n1+n2<=6, 3 trains <= 2 each; measures: messy train with 3 times (n2 <= 1), and two messy trains with 2 times each",
}
OUTSIDE = "more spikes; spike times within 1e-6 of an edge but outside it are kept by design (tolerance) and are not passed to measures here"
ASSUMPTIONS = ["'same result' = equal time axes, values, multiplicities, scalars, matrices, kept/removed spikes",
               "immutability is observed on object identity of the spike arrays and of their elements"]

MEASURES = [
    ("isi_profile", "bi"), ("isi_profile", "list"), ("isi_distance", "bi"), ("isi_distance", "list"),
    ("isi_distance_matrix", "list"), ("isi_profile_multi", "list"), ("isi_distance_multi", "list"),
    ("spike_profile", "bi"), ("spike_profile", "list"), ("spike_distance", "bi"), ("spike_distance", "list"),
    ("spike_distance_matrix", "list"), ("spike_profile_multi", "list"), ("spike_distance_multi", "list"),
    ("spike_sync_profile", "bi"), ("spike_sync_profile", "list"), ("spike_sync", "bi"), ("spike_sync", "list"),
    ("spike_sync_matrix", "list"), ("spike_sync_profile_multi", "list"), ("spike_sync_multi", "list"),
    ("filter_by_spike_sync", "filter"),
    ("spike_train_order_profile", "bi"), ("spike_train_order_profile", "list"),
    ("spike_train_order", "bi"), ("spike_train_order", "list"),
    ("spike_directionality", "bi"), ("spike_directionality_values", "list"),
    ("spike_directionality_matrix", "list"), ("spike_train_order_profile_multi", "list"),
    ("spike_train_order_multi", "list"),
]


def configs(tier):
    q = tier == "quick"
    for n1 in range(4):
        for n2 in range(4):
            if n1 + n2 <= (5 if q else 6):
                yield dict(name="reconcile-%d+%d" % (n1, n2), what="reconcile", backend="py", ns=[n1, n2],
                           cost=6 ** (n1 + n2), split_forks=(8 if n1 + n2 >= 4 else None))
    for ns in ([(2, 1, 1), (1, 1, 1)] if q else [(2, 2, 2), (2, 1, 1), (2, 2, 1)]):
        yield dict(name="reconcile-%s" % "+".join(map(str, ns)), what="reconcile", backend="py", ns=list(ns),
                   cost=6 ** sum(ns), split_forks=8)
    for be in ("py", "pyx"):
        for (fn, form) in MEASURES:
            sizes = [(2, 0, None), (2, 1, None), (2, 2, None), (2, 1, 1)] if q else \
                [(2, 0, None), (2, 1, None), (2, 2, None), (2, 1, 1), (3, 1, None), (2, -2, None)]
            for (n1, n2, n3) in sizes:
                if form == "bi" and n3 is not None:
                    continue
                if q and n3 is not None and fn not in ("isi_distance", "spike_sync", "spike_train_order",
                                                       "spike_directionality_values", "filter_by_spike_sync",
                                                       "isi_distance_matrix"):
                    continue
                if fn.startswith("spike_pro") or fn.startswith("spike_dist"):
                    if n2 is not None and abs(n2) > 1 and q:
                        continue
                yield dict(name="measure-%s-%s-%s-%d+%s+%s" % (be, fn, form, n1, n2, n3), what="measure", backend=be,
                           fn=fn, form=form, n1=n1, n2=n2, n3=n3,
                           fork=("spike_pro" in fn or "spike_dist" in fn or fn.startswith("isi_")),
                           cost=8 ** (n1 + abs(n2) + (n3 or 0)), validate=3,
                           split_forks=(8 if n1 + abs(n2) + (n3 or 0) >= 4 else None))
                if (n1, n2, n3) in ((2, 1, None), (2, 1, 1)) and (fn, form) in (
                        ("isi_distance_matrix", "list"), ("spike_sync_matrix", "list"), ("isi_distance", "list"),
                        ("spike_sync", "list"), ("spike_train_order", "list"), ("spike_directionality_matrix", "list"),
                        ("isi_profile", "bi"), ("spike_sync_profile", "bi")) and (tier != "quick" or n3 is None):
                    # the automatic threshold must be computed from the reconciled trains
                    yield dict(name="measure-auto-%s-%s-%s-%d+%s+%s" % (be, fn, form, n1, n2, n3), what="measure",
                               backend=be, fn=fn, form=form, n1=n1, n2=n2, n3=n3, auto=True, fork=fn.startswith("isi_"),
                               cost=3 * 8 ** (n1 + abs(n2) + (n3 or 0)), validate=2,
                               split_forks=(8 if n1 + abs(n2) + (n3 or 0) >= 4 else None))
    for c in repeat_configs(tier):
        yield c


REPEAT_FNS = ["isi_distance", "spike_distance", "spike_sync", "spike_sync_profile", "spike_train_order",
              "isi_profile", "spike_directionality"]


def repeat_configs(tier):
    # one call, then other measures on the SAME objects, then the same call again: the answer must not
    # depend on what was evaluated before, and the caller's trains must still be what they were
    sizes = [(0, 0), (0, 1), (1, 0), (1, 1), (0, 2)] + ([(2, 1), (2, 2)] if tier != "quick" else [])
    for fn in REPEAT_FNS:
        for (n1, n2) in sizes:
            for rec in ("default", "norec"):
                yield dict(name="repeat-py-%s-%s-%d+%d" % (fn, rec, n1, n2), what="repeat", backend="py", fn=fn,
                           rec=rec, n1=n1, n2=n2, fork=("spike_dist" in fn), cost=6 ** (n1 + n2 + 1), validate=3)


def controls(tier):
    yield dict(name="control-reconcile-no-unique", what="reconcile", backend="py", ns=[2, 0],
               mutations=[("pyspike.spikes", "SpikeTrain(np.unique(s.spikes),", "SpikeTrain(np.sort(s.spikes),")])
    yield dict(name="control-reconcile-skipped", what="measure", backend="py", fn="isi_distance", form="list",
               n1=2, n2=1, n3=None, fork=True,
               mutations=[("pyspike.generic",
                           "def _generic_distance_multi(spike_trains, pair_distance_func,\n                            indices=None, interval=None, **kwargs):",
                           "def _generic_distance_multi(spike_trains, pair_distance_func,\n                            indices=None, interval=None, **kwargs):\n    kwargs['Reconcile'] = False")])
    yield dict(name="control-inplace-sort", what="measure", backend="py", fn="spike_sync", form="bi", n1=2, n2=1, n3=None,
               mutations=[("pyspike.spikes", "    spike_trains = [SpikeTrain(np.unique(s.spikes), ",
                           "    for s in spike_trains:\n        s.spikes.sort()\n    spike_trains = [SpikeTrain(np.unique(s.spikes), ")])


def raw_times(E, tag, n):
    return [E.fresh("%s%d" % (tag, i)) for i in range(n)]


def sorted_unique(vals):
    out = []
    for v in vals:
        k = 0
        dup = False
        while k < len(out):
            if v == out[k]:
                dup = True
                break
            if v < out[k]:
                break
            k += 1
        if not dup:
            out.insert(k, v)
    return out


def snap(st):
    return (st.spikes, list(st.spikes), st.t_start, st.t_end)


def untouched(E, st, sn):
    arr, el, t0, t1 = sn
    ok = st.spikes is arr and len(arr) == len(el)
    ok = ok and all((a is b) or (E.mode == "concrete" and a == b) for a, b in zip(arr, el))
    ok = ok and ((st.t_start is t0 and st.t_end is t1) or (E.mode == "concrete" and st.t_start == t0 and st.t_end == t1))
    return ok


def program(E, cfg):
    if cfg["what"] == "reconcile":
        return reconcile(E, cfg)
    if cfg["what"] == "repeat":
        return repeat(E, cfg)
    return measure(E, cfg)


def repeat(E, cfg):
    ts, te = hx.edges(E)
    a = hx.train(hx.spikes(E, "a", cfg["n1"], ts, te), ts, te)
    b = hx.train(hx.spikes(E, "b", cfg["n2"], ts, te), ts, te)
    fn = getattr(pyspike, cfg["fn"])
    kw = {} if cfg["rec"] == "default" else {"Reconcile": False}
    snaps = [snap(a), snap(b)]
    with hx.quiet():
        r0 = fn(a, b, **kw)
        for prime in (pyspike.isi_distance, pyspike.spike_distance, pyspike.spike_sync, pyspike.spike_train_order):
            try:
                prime(a, b, **kw)
                prime([a, b, a], **kw)
            except Exception:
                pass            # totality is C18's subject; here only what the calls leave behind matters
        r1 = fn(a, b, **kw)
    f0 = flatten(r0)
    f1 = flatten(r1)
    E.observe("first", [v for _, v in f0][:20])
    E.observe("again", [v for _, v in f1][:20])
    if E.prove(len(f0) == len(f1) and all(x[0] == y[0] for x, y in zip(f0, f1)),
               "%s: same result structure when asked again" % cfg["fn"]):
        for (l0, v0), (l1, v1) in zip(f0, f1):
            if l0.endswith(".len") or l0.endswith(".shape"):
                E.prove(v0 == v1, "%s: same shape when asked again" % cfg["fn"])
            elif not E.finite(v0) and not E.finite(v1):
                continue
            else:
                E.prove(E.eq(v0, v1), "%s: same result when asked again after other measures on the same objects" % cfg["fn"])
    for t, sn in zip((a, b), snaps):
        E.prove(untouched(E, t, sn), "%s: caller's spike trains are not modified by a sequence of calls" % cfg["fn"])


def reconcile(E, cfg):
    from pyspike.spikes import reconcile_spike_trains
    K = len(cfg["ns"])
    trains = []
    raws = []
    eds = []
    for k, n in enumerate(cfg["ns"]):
        t0 = E.fresh("ts%d" % k)
        t1 = E.fresh("te%d" % k)
        E.assume(t0 < t1)
        vals = raw_times(E, "abc"[k], n)
        raws.append(vals)
        eds.append((t0, t1))
        trains.append(pyspike.SpikeTrain(list(vals), [t0, t1]))
    snaps = [snap(t) for t in trains]
    out = reconcile_spike_trains(trains)
    tS = hx.smin([e[0] for e in eds])
    tE = hx.smax([e[1] for e in eds])
    eps = 1e-6
    E.prove(len(out) == K, "one output train per input train")
    for k in range(K):
        o = out[k]
        E.observe("out%d" % k, list(o.spikes))
        E.prove(hx.sand(E.eq(o.t_start, tS), E.eq(o.t_end, tE)), "common interval = (smallest start, largest end)")
        sp = list(o.spikes)
        for u, v in zip(sp[:-1], sp[1:]):
            E.prove(E.lt(u, v), "output spike times strictly increasing")
        exp = [v for v in sorted_unique(raws[k]) if (v > tS - eps and v < tE + eps)]
        if E.prove(len(sp) == len(exp), "every distinct input time inside the interval exactly once, nothing else"):
            for u, v in zip(sp, exp):
                E.prove(E.eq(u, v), "output spike = distinct input spike")
        E.prove(o is not trains[k] and not np.shares_memory(o.spikes, trains[k].spikes), "fresh output objects")
        E.prove(untouched(E, trains[k], snaps[k]), "input train not modified by reconcile")
    again = reconcile_spike_trains(out)
    for k in range(K):
        a, b = list(again[k].spikes), list(out[k].spikes)
        if E.prove(len(a) == len(b), "reconciling twice changes nothing (length)"):
            for u, v in zip(a, b):
                E.prove(E.eq(u, v), "reconciling twice changes nothing")
        E.prove(hx.sand(E.eq(again[k].t_start, out[k].t_start), E.eq(again[k].t_end, out[k].t_end)),
                "reconciling twice keeps the interval")


def flatten(res):
    """result of any measure -> list of (label, value)"""
    out = []

    def rec(lbl, v):
        if hasattr(v, "x") and hasattr(v, "mp"):
            rec(lbl + ".x", list(v.x)); rec(lbl + ".y", list(v.y)); rec(lbl + ".mp", list(v.mp))
        elif hasattr(v, "x") and hasattr(v, "y1"):
            rec(lbl + ".x", list(v.x)); rec(lbl + ".y1", list(v.y1)); rec(lbl + ".y2", list(v.y2))
        elif hasattr(v, "x") and hasattr(v, "y"):
            rec(lbl + ".x", list(v.x)); rec(lbl + ".y", list(v.y))
        elif hasattr(v, "spikes") and hasattr(v, "t_start"):
            rec(lbl + ".spikes", list(v.spikes)); out.append((lbl + ".t_start", v.t_start)); out.append((lbl + ".t_end", v.t_end))
        elif isinstance(v, np.ndarray):
            out.append((lbl + ".shape", tuple(v.shape)))
            for i, e in enumerate(v.reshape(-1)):
                out.append(("%s[%d]" % (lbl, i), e))
        elif isinstance(v, (list, tuple)):
            out.append((lbl + ".len", len(v)))
            for i, e in enumerate(v):
                rec("%s[%d]" % (lbl, i), e)
        else:
            out.append((lbl, v))
    rec("r", res)
    return out


def measure(E, cfg):
    ts, te = hx.edges(E)
    n1, n2, n3 = cfg["n1"], cfg["n2"], cfg["n3"]
    ra = raw_times(E, "a", n1)
    for v in ra:
        E.assume(v >= ts)
        E.assume(v <= te)
    messy = [pyspike.SpikeTrain(list(ra), [ts, te])]
    clean = [pyspike.SpikeTrain(sorted_unique(ra), [ts, te])]
    if n2 is not None and n2 < 0:
        rb = raw_times(E, "b", -n2)
        for v in rb:
            E.assume(v >= ts)
            E.assume(v <= te)
        messy.append(pyspike.SpikeTrain(list(rb), [ts, te]))
        clean.append(pyspike.SpikeTrain(sorted_unique(rb), [ts, te]))
    else:
        sb = hx.spikes(E, "b", n2, ts, te)
        messy.append(hx.train(sb, ts, te))
        clean.append(hx.train(sb, ts, te))
    if n3 is not None:
        sc = hx.spikes(E, "c", n3, ts, te)
        messy.append(hx.train(sc, ts, te))
        clean.append(hx.train(sc, ts, te))
    fn = getattr(pyspike, cfg["fn"], None)
    if fn is None:
        import pyspike.spike_directionality as sd
        fn = getattr(sd, cfg["fn"])
    snaps = [snap(t) for t in messy]
    form = cfg["form"]
    kw = {"MRTS": "auto"} if cfg.get("auto") else {}
    with hx.quiet():
        if form == "bi":
            r1 = fn(messy[0], messy[1], **kw)
            r2 = fn(clean[0], clean[1], Reconcile=False, **kw)
        elif form == "filter":
            r1 = fn(messy, 0.0, return_removed_spikes=True, **kw)
            r2 = fn(clean, 0.0, return_removed_spikes=True, Reconcile=False, **kw)
        else:
            r1 = fn(messy, **kw)
            r2 = fn(clean, Reconcile=False, **kw)
    f1 = flatten(r1)
    f2 = flatten(r2)
    E.observe("result", [v for _, v in f1][:40])
    if E.prove(len(f1) == len(f2) and all(a[0] == b[0] for a, b in zip(f1, f2)),
               "%s: same result structure on disordered input" % cfg["fn"]):
        for (l1, v1), (l2, v2) in zip(f1, f2):
            if l1.endswith(".len") or l1.endswith(".shape"):
                E.prove(v1 == v2, "%s: same shape" % cfg["fn"])
            elif not E.finite(v1) and not E.finite(v2):
                continue        # non-finite on both sides: totality is C18's subject
            else:
                E.prove(E.eq(v1, v2), "%s: result unaffected by order/repetition of spike times" % cfg["fn"])
    for t, sn in zip(messy, snaps):
        E.prove(untouched(E, t, sn), "%s: caller's spike trains are not modified" % cfg["fn"])
