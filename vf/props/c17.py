"""C17  The SPIKE-Sync filter keeps exactly the spikes above threshold."""
import itertools

import numpy as np
import pyspike
from .. import hx

ID = "C17"
LEVEL = "model_checking"
BOUNDS = {
    "quick": "3 trains with 0..2 spikes each and at most 4 spikes in total, 2 trains with 0..2 spikes; two symbolic "
             "thresholds 0 <= thr1 <= thr2 <= 1 (the solver hits k/(N-1) exactly); (max_tau, MRTS) in {(None, omitted), "
             "(symbolic > 0, symbolic > 0) for <= 3 spikes}; py and pyx",
    "thorough": "3 trains with 0..2 spikes each (sum <= 5), (3,1,1) in every order, 4 trains with 0..1 spikes (max_tau None, MRTS omitted); same settings otherwise",
}
OUTSIDE = "more trains / spikes"
ASSUMPTIONS = ["oracle: per spike the number of other trains holding a coincident spike by the pairwise definition of C03 (hx.coincidences)"]


def configs(tier):
    q = tier == "quick"
    for be in ("py", "pyx"):
        sizes = [ns for ns in itertools.product(range(3), repeat=3) if sum(ns) <= (4 if q else 5)]
        sizes += [ns for ns in itertools.product(range(3), repeat=2)]
        if not q:
            sizes += list(set(itertools.permutations((3, 1, 1)))) + [ns for ns in itertools.product(range(2), repeat=4)]
        for ns in sizes:
            for mt, mk in (("none", "omit"), ("pos", "pos")):
                if mk == "pos" and (sum(ns) > (3 if q else 4) or len(ns) > 3):
                    continue
                yield dict(name="%s-mt%s-m%s-%s" % (be, mt, mk, "+".join(map(str, ns))), backend=be, mt=mt, m=mk,
                           ns=list(ns), cost=7 ** sum(ns) * (3 if mk == "pos" else 1),
                           split_forks=(8 if sum(ns) >= 4 else None))


def controls(tier):
    yield dict(name="control-py-nonstrict", backend="py", mt="none", m="omit", ns=[1, 1, 1],
               mutations=[("pyspike.spike_sync", "filtered_spikes = st[coincidences > threshold*(N-1)]",
                           "filtered_spikes = st[coincidences >= threshold*(N-1)]")])
    yield dict(name="control-pyx-skip-self", backend="pyx", mt="none", m="omit", ns=[1, 1, 1],
               mutations=[("pyspike.spike_sync", "            if i == j:\n                continue\n",
                           "            if i == 0 and j == N-1:\n                continue\n            if i == j:\n                continue\n")])


def program(E, cfg):
    ts, te = hx.edges(E)
    S = [hx.spikes(E, "abcd"[k], n, ts, te) for k, n in enumerate(cfg["ns"])]
    K = len(S)
    mt = hx.param(E, "mt", cfg["mt"])
    kw = {}
    m = 0.0
    if cfg["m"] != "omit":
        m = hx.param(E, "m", cfg["m"])
        kw["MRTS"] = m
    thr1 = E.fresh("thr1")
    thr2 = E.fresh("thr2")
    E.assume(thr1 >= 0)
    E.assume(thr1 <= thr2)
    E.assume(thr2 <= 1)
    T = [hx.train(s, ts, te) for s in S]
    snaps = [(t.spikes, list(t.spikes), t.t_start, t.t_end) for t in T]
    # oracle counts
    count = [[0] * len(s) for s in S]
    for i in range(K):
        for j in range(i + 1, K):
            c1, c2, _, _ = hx.coincidences(S[i], S[j], ts, te, mt, m)
            for k in range(len(c1)):
                count[i][k] += 1 if c1[k] else 0
            for k in range(len(c2)):
                count[j][k] += 1 if c2[k] else 0
    kept = {}
    for name, thr in (("thr1", thr1), ("thr2", thr2)):
        f, r = pyspike.filter_by_spike_sync(T, thr, max_tau=mt, return_removed_spikes=True, **kw)
        E.observe(name + ".kept", [list(t.spikes) for t in f])
        E.observe(name + ".removed", [list(t.spikes) for t in r])
        E.prove(len(f) == K and len(r) == K, "one filtered and one removed train per input train")
        kept[name] = []
        for i in range(K):
            exp_keep = []
            exp_rem = []
            flags = []
            for k in range(len(S[i])):
                if count[i][k] > thr * (K - 1):
                    exp_keep.append(S[i][k])
                    flags.append(1)
                else:
                    exp_rem.append(S[i][k])
                    flags.append(0)
            kept[name].append(flags)
            got_k = list(f[i].spikes)
            got_r = list(r[i].spikes)
            if E.prove(len(got_k) == len(exp_keep) and len(got_r) == len(exp_rem),
                       "kept exactly the spikes whose coincidence fraction is strictly above the threshold"):
                for u, v in zip(got_k, exp_keep):
                    E.prove(E.eq(u, v), "kept spikes in the original order")
                for u, v in zip(got_r, exp_rem):
                    E.prove(E.eq(u, v), "removed spikes are the complement in the original order")
            for tr in (f[i], r[i]):
                E.prove(hx.sand(E.eq(tr.t_start, ts), E.eq(tr.t_end, te)), "filtered trains keep the original interval")
    for i in range(K):
        for k in range(len(S[i])):
            E.prove(kept["thr2"][i][k] <= kept["thr1"][i][k], "a higher threshold never keeps more spikes")
    # agreement with the multivariate profile for spikes whose time is unique across trains
    P = pyspike.spike_sync_profile(T, max_tau=mt, **kw)
    for i in range(K):
        for k in range(len(S[i])):
            x = S[i][k]
            unique = not any(any(y == x for y in S[j]) for j in range(K) if j != i)
            if unique:
                idx = [q_ for q_ in range(1, len(P.x) - 1) if P.x[q_] == x]
                if E.prove(len(idx) == 1, "the multivariate profile has an entry at the spike time"):
                    E.prove(hx.sand(E.eq(P.y[idx[0]], count[i][k]), E.eq(P.mp[idx[0]], K - 1)),
                            "coincidence count = value of the multivariate SPIKE-Sync profile at that spike")
    for t, (arr, el, t0, t1) in zip(T, snaps):
        ok = t.spikes is arr and len(arr) == len(el) and all((a is b) or (E.mode == "concrete" and a == b)
                                                             for a, b in zip(arr, el))
        E.prove(ok, "the input trains are left unchanged")
