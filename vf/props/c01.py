"""C01  ISI-profile equals the ISI-distance definition for every pair of trains."""
import pyspike
from .. import hx

ID = "C01"
LEVEL = "model_checking"
BOUNDS = {
    "quick": "two trains with 0..3 spikes each (all 16 size pairs) plus the asymmetric pairs (0|1|2)+5 in both orders, MRTS omitted and symbolic >= 0, and 4+4 with MRTS omitted, "
             "backends py and pyx; all real spike times/edges incl. ties and spikes on the edges",
    "thorough": "two trains with 0..4 spikes each (all 25 size pairs) plus (0|1|2|3)+5 and 1+6 in both orders, MRTS omitted and symbolic >= 0, py and pyx",
}
OUTSIDE = "more than 3 (quick) / 4 (thorough) spikes per train; float rounding"
ASSUMPTIONS = ["oracle: hx.isi_profile_oracle (breakpoints by insertion, ISI containing the piece midpoint by linear scan)"]


def configs(tier):
    n = 3 if tier == "quick" else 4
    for be in ("py", "pyx"):
        for mk in ("omit", "sym"):
            for n1 in range(n + 1):
                for n2 in range(n + 1):
                    yield dict(name="%s-m%s-%d+%d" % (be, mk, n1, n2), backend=be, m=mk,
                               n1=n1, n2=n2, cost=4 ** (n1 + n2))
            # asymmetric pairs with one long train (code that only triggers from 4-5 spikes on)
            for (n1, n2) in LONG[tier] + ([(4, 4)] if tier == "quick" and mk == "omit" else []):
                yield dict(name="%s-m%s-%d+%d" % (be, mk, n1, n2), backend=be, m=mk, n1=n1, n2=n2,
                           cost=4 ** (min(n1, n2) + 3), split_forks=(8 if n1 + n2 >= 7 else None))


LONG = {"quick": [(1, 5), (5, 1), (0, 5), (5, 0), (2, 5), (5, 2)],
        "thorough": [(1, 5), (5, 1), (0, 5), (5, 0), (2, 5), (5, 2), (1, 6), (6, 1), (3, 5), (5, 3)]}


def controls(tier):
    # the first-interval edge correction dropped (a realistic regression)
    yield dict(name="control-py-drop-edge-max", backend="py", m="omit", n1=2, n2=1,
               mutations=[("pyspike.cython.python_backend",
                           "nu1 = max(s1[0] - t_start, s1[1] - s1[0]) if N1 > 1 else s1[0]-t_start",
                           "nu1 = s1[0] - t_start")])
    yield dict(name="control-pyx-tie-branch", backend="pyx", m="omit", n1=1, n2=1,
               mutations=[("pyx:cython_profiles",
                           "(s1[index1+1] < s2[index2+1])", "(s1[index1+1] <= s2[index2+1])")])


def program(E, cfg):
    ts, te = hx.edges(E)
    s1 = hx.spikes(E, "a", cfg["n1"], ts, te)
    s2 = hx.spikes(E, "b", cfg["n2"], ts, te)
    kw = {}
    m = 0.0
    if cfg["m"] == "sym":
        m = hx.param(E, "m", "sym")
        kw["MRTS"] = m
    st1 = hx.train(s1, ts, te)
    st2 = hx.train(s2, ts, te)
    p = pyspike.isi_profile(st1, st2, **kw)
    E.observe("x", list(p.x))
    E.observe("y", list(p.y))
    ox, oy = hx.isi_profile_oracle(s1, s2, ts, te, m)
    if not E.prove(len(p.x) == len(ox), "number of breakpoints"):
        return
    E.prove(len(p.y) == len(oy), "number of values")
    for k in range(len(ox)):
        E.prove(E.eq(p.x[k], ox[k]), "breakpoint")
    for k in range(len(oy)):
        E.prove(E.eq(p.y[k], oy[k]), "value = |v1-v2|/max(v1,v2,MRTS)")
    d = pyspike.isi_distance(st1, st2, **kw)
    E.observe("distance", d)
    # the profile values were just proved equal to the definition piece by
    # piece, so the average of the returned profile is the defined average
    E.prove(E.eq(d * (te - ts), hx.pwc_integral(list(p.x), list(p.y))),
            "distance = average of the defined profile")
