"""C03  SPIKE-Sync profile marks exactly the mutually coincident spikes."""
import numpy as np
import pyspike
from .. import hx

ID = "C03"
LEVEL = "model_checking"
BOUNDS = {
    "quick": "two trains with 0..3 spikes each plus the asymmetric pairs (0|1|2)+5 in both orders (max_tau None, MRTS omitted); 3+3 for max_tau=None/MRTS omitted/py, n1+n2 <= 5 when one or two of "
             "(max_tau symbolic > 0, MRTS symbolic > 0, backend pyx) apply, n1+n2 <= 4 when all three apply; "
             "max_tau=0 up to n1+n2 <= 4 (same code path as None)",
    "thorough": "two trains with 0..3 spikes each, all size pairs, all of max_tau in {None, 0, symbolic > 0} x MRTS in "
                "{omitted, symbolic > 0} x {py, pyx}; 4 spikes (n1+n2 <= 6) for max_tau=None and MRTS omitted",
}
OUTSIDE = "more spikes per train than stated; float rounding"
ASSUMPTIONS = ["oracle: hx.coincidences - all-pairs definition with the window of hx.window "
               "(half of the smallest adjacent ISI, missing neighbour = recording length resp. 2*max_tau, "
               "thresholded interpolation for MRTS > 0, capped by max_tau when max_tau > 0)"]


def configs(tier):
    n = 3 if tier == "quick" else 4
    for be in ("py", "pyx"):
        for mt in ("none", "zero", "pos"):
            for mk in ("omit", "pos"):
                for n1 in range(n + 1):
                    for n2 in range(n + 1):
                        if max(n1, n2) == 4 and (n1 + n2 > 6 or mt != "none" or mk != "omit"):
                            continue
                        if tier == "quick":
                            if mt == "zero" and n1 + n2 > 4:
                                continue      # None and 0 take the same code path after `max_tau = 0.0`
                            heavy = (mk == "pos") + (mt == "pos") + (be == "pyx")
                            if n1 + n2 > (6 if heavy == 0 else 5 if heavy <= 2 else 4):
                                continue
                        yield dict(name="%s-mt%s-m%s-%d+%d" % (be, mt, mk, n1, n2), backend=be,
                                   mt=mt, m=mk, n1=n1, n2=n2, cost=5 ** (n1 + n2) * (2 if mk == "pos" else 1),
                                   split_forks=(9 if n1 + n2 >= 5 else None))
        # asymmetric pairs with one long train (code that only triggers from 4-5 spikes on)
        for (n1, n2) in LONG[tier]:
            for mt, mk in ((("none", "omit"),) if tier == "quick" else (("none", "omit"), ("pos", "omit"))):
                if mk == "pos" and max(n1, n2) > 5:
                    continue
                yield dict(name="%s-mt%s-m%s-%d+%d" % (be, mt, mk, n1, n2), backend=be, mt=mt, m=mk, n1=n1, n2=n2,
                           cost=5 ** (min(n1, n2) + 3) * (4 if mk == "pos" else 1), split_forks=(9 if min(n1, n2) >= 2 else None))


LONG = {"quick": [(1, 5), (5, 1), (0, 5), (5, 0), (2, 5), (5, 2)],
        "thorough": [(1, 5), (5, 1), (0, 5), (5, 0), (2, 5), (5, 2), (1, 6), (6, 1)]}


def controls(tier):
    yield dict(name="control-py-tie-counts", backend="py", mt="none", m="omit", n1=1, n2=1,
               mutations=[("pyspike.cython.python_backend",
                           "if j > -1 and spikes1[i]-spikes2[j] < tau:",
                           "if j > -1 and spikes1[i]-spikes2[j] <= tau:")])
    yield dict(name="control-pyx-single-scan-tie", backend="pyx", mt="none", m="omit", n1=1, n2=1,
               mutations=[("pyx:cython_profiles",
                           "if fabs(spikes2[j]-spikes1[i]) < tau:",
                           "if fabs(spikes2[j]-spikes1[i]) <= tau:")])


def expected_profile(s1, s2, ts, te, c1, c2):
    ev = hx.merged_events(s1, s2)
    if not ev:
        return [ts, te], [1, 1], [1, 1]
    x = [ts]
    y = [None]
    mp = [None]
    for t, who in ev:
        x.append(t)
        if len(who) == 2:
            y.append(2)
            mp.append(2)
        else:
            tr, k = who[0]
            y.append(1 if (c1[k] if tr == 0 else c2[k]) else 0)
            mp.append(1)
    x.append(te)
    y.append(y[-1])
    mp.append(mp[-1])
    y[0] = y[1]
    mp[0] = mp[1]
    return x, y, mp


def program(E, cfg):
    ts, te = hx.edges(E)
    s1 = hx.spikes(E, "a", cfg["n1"], ts, te)
    s2 = hx.spikes(E, "b", cfg["n2"], ts, te)
    mt = hx.param(E, "mt", cfg["mt"])
    kw = {}
    m = 0.0
    if cfg["m"] != "omit":
        m = hx.param(E, "m", cfg["m"])
        kw["MRTS"] = m
    st1 = hx.train(s1, ts, te)
    st2 = hx.train(s2, ts, te)
    p = pyspike.spike_sync_profile(st1, st2, max_tau=mt, **kw)
    E.observe("x", list(p.x))
    E.observe("y", list(p.y))
    E.observe("mp", list(p.mp))
    c1, c2, p1, p2 = hx.coincidences(s1, s2, ts, te, mt, m)
    ox, oy, omp = expected_profile(s1, s2, ts, te, c1, c2)
    if E.prove(len(p.x) == len(ox) and len(p.y) == len(ox) and len(p.mp) == len(ox),
               "one entry per distinct spike time plus two edge entries"):
        for k in range(len(ox)):
            E.prove(E.eq(p.x[k], ox[k]), "entry time")
            E.prove(E.eq(p.y[k], oy[k]), "coincidence mark = pairwise definition")
            E.prove(E.eq(p.mp[k], omp[k]), "multiplicity")
    # mutual / one-to-one: both trains contribute the same number of coincident spikes
    E.prove(sum(1 for c in c1 if c) == sum(1 for c in c2 if c),
            "same number of coincident spikes in both trains")
    # the per-spike indicator used by the filter agrees with the definition
    if cfg["backend"] == "pyx":
        from pyspike.cython.cython_profiles import coincidence_single_profile_cython as single
    else:
        from pyspike.cython.python_backend import coincidence_single_python as single
    mtv = 0.0 if mt is None else mt
    i1 = single(st1.spikes, st2.spikes, ts, te, mtv, m)
    i2 = single(st2.spikes, st1.spikes, ts, te, mtv, m)
    E.observe("ind1", list(np.asarray(i1)))
    E.observe("ind2", list(np.asarray(i2)))
    for k in range(len(s1)):
        E.prove(E.eq(np.asarray(i1)[k], 1 if c1[k] else 0), "per-spike indicator (train 1) = definition")
    for k in range(len(s2)):
        E.prove(E.eq(np.asarray(i2)[k], 1 if c2[k] else 0), "per-spike indicator (train 2) = definition")
    # scalar
    v = pyspike.spike_sync(st1, st2, max_tau=mt, **kw)
    E.observe("sync", v)
    tot = sum(oy[1:-1])
    mult = sum(omp[1:-1])
    if len(s1) + len(s2) == 0:
        E.prove(E.eq(v, 1.0), "SPIKE-Sync of two empty trains is 1")
    else:
        E.prove(E.eq(v * mult, tot), "spike_sync = coincidences / multiplicity")
