"""C12  Compiled backend and pure-Python fallback compute the same results
(translation validation of the duplicated algorithms, at source level)."""
import itertools

import numpy as np
import pyspike
from .. import hx
from .c09 import mkfun
from .c11 import mkdisc

ID = "C12"
LEVEL = "translation_validation"
BOUNDS = {
    "quick": "15 routine pairs on identical symbolic arguments: ISI/sync/order/directionality profile and single-pass "
             "routines with 0..3 spikes per train (n1+n2 <= 5; arguments as the callers build them, i.e. auxiliary edge "
             "spikes for empty trains where the caller adds them), SPIKE routines 0..2 spikes (plain and RI), get_tau for "
             "every index pair incl. -1 with <= 3 spikes, max_tau/MRTS symbolic; add routines with <= 3 pieces/events",
    "thorough": "linear routines 3+3 (symbolic max_tau/MRTS up to n1+n2 <= 5), SPIKE n1+n2 <= 4 (max 3 each), add routines <= 4 pieces/events",
}
OUTSIDE = "the C compiler, Cython code generation, memoryview acquisition, the GIL; larger sizes; float rounding"
ASSUMPTIONS = ["the .pyx side is the de-cythonized source (vf/decy.py): C doubles as exact reals, out-of-range memoryview "
               "indices reported, cdef variables read before assignment surface as UnboundLocalError",
               "non-finite values (x/0) are compared as equal when both sides are non-finite"]

ROUTINES = ["isi_profile", "isi_distance", "spike_profile", "spike_distance", "coincidence_profile",
            "coincidence_single", "coincidence_value", "get_tau", "order_profile", "order_value",
            "directionality_profiles", "directionality_value", "add_const", "add_lin", "add_disc"]


def PROGRAMS(tier):
    return len(ROUTINES)


def configs(tier):
    q = tier == "quick"
    lin_r = ["isi_profile", "isi_distance", "coincidence_profile", "coincidence_single", "coincidence_value",
             "order_profile", "order_value", "directionality_profiles", "directionality_value"]
    for r in lin_r:
        for n1 in range(4):
            for n2 in range(4):
                if n1 + n2 > (5 if q else 6):
                    continue
                for par in ("plain", "sym"):
                    if par == "sym" and n1 + n2 > (4 if q else 5) and not r.startswith("isi"):
                        continue
                    yield dict(name="%s-%s-%d+%d" % (r, par, n1, n2), routine=r, backend="pyx", par=par, n1=n1, n2=n2,
                               cost=5 ** (n1 + n2) * (3 if par == "sym" else 1),
                               split_forks=(8 if n1 + n2 >= 5 else None))
    for r in ("spike_profile", "spike_distance"):
        ns = 2 if q else 3
        for n1 in range(ns + 1):
            for n2 in range(ns + 1):
                if n1 + n2 > 4:
                    continue
                for ri in (0, 1):
                    for par in ("plain", "sym"):
                        yield dict(name="%s-ri%d-%s-%d+%d" % (r, ri, par, n1, n2), routine=r, backend="pyx", par=par,
                                   ri=ri, n1=n1, n2=n2, fork=True, validate=3,
                                   cost=9 ** (n1 + n2) * (2 if par == "sym" else 1),
                                   split_forks=(8 if n1 + n2 >= 3 else None))
    for n1 in range(4):
        for n2 in range(4):
            if n1 + n2 > 5:
                continue
            yield dict(name="get_tau-%d+%d" % (n1, n2), routine="get_tau", backend="pyx", n1=n1, n2=n2,
                       cost=4 ** (n1 + n2))
    P = 3 if q else 4
    for p1 in range(1, P + 1):
        for p2 in range(1, P + 1):
            yield dict(name="add_const-%d+%d" % (p1, p2), routine="add_const", backend="pyx", p1=p1, p2=p2, cost=3 ** (p1 + p2))
            yield dict(name="add_lin-%d+%d" % (p1, p2), routine="add_lin", backend="pyx", p1=p1, p2=p2, fork=True,
                       cost=3 ** (p1 + p2))
    for p1 in range(0, P + 1):
        for p2 in range(0, P + 1):
            yield dict(name="add_disc-%d+%d" % (p1, p2), routine="add_disc", backend="pyx", p1=p1, p2=p2, cost=3 ** (p1 + p2))


def controls(tier):
    yield dict(name="control-edit-one-copy-isi", routine="isi_profile", backend="pyx", par="plain", n1=2, n2=2,
               mutations=[("pyspike.cython.python_backend",
                           "nu1 = max(t_end-s1[N1-1], s1[N1-1]-s1[N1-2]) if N1 > 1 \\\n                    else t_end-s1[N1-1]\n\n        elif",
                           "nu1 = t_end-s1[N1-1]\n\n        elif")])
    yield dict(name="control-edit-one-copy-tau", routine="get_tau", backend="pyx", n1=2, n2=2,
               mutations=[("pyx:cython_get_tau", "if t < b and b <= a: return b", "if t < b and b < a: return b")])
    yield dict(name="control-edit-one-copy-add", routine="add_const", backend="pyx", p1=2, p2=2,
               mutations=[("pyx:cython_add", "y_new[index] = y1[index1] + y2[index2]", "y_new[index] = y1[index1]")])


def same(E, a, b):
    if not E.finite(a) and not E.finite(b):
        return True
    return E.eq(a, b)


def cmp_arrays(E, A, B, what):
    A = [np.asarray(x) for x in A]
    B = [np.asarray(x) for x in B]
    if not E.prove(len(A) == len(B) and all(len(a) == len(b) for a, b in zip(A, B)), what + ": same lengths"):
        return
    for a, b in zip(A, B):
        for u, v in zip(a, b):
            E.prove(same(E, u, v), what + ": same values")


def arr(x):
    return np.array(list(x), dtype=object if any(isinstance(v, hx.Sym) for v in x) or len(x) == 0 else float) \
        if hx.eng.ENG.mode == "sym" else np.array(list(x), dtype=float)


def program(E, cfg):
    from pyspike.cython import python_backend as pb, directionality_python_backend as dpb
    from pyspike.cython import cython_profiles as cp, cython_distances as cd, cython_add as ca, \
        cython_directionality as cdir, cython_get_tau as cgt
    r = cfg["routine"]
    ts, te = hx.edges(E)
    if r.startswith("add_"):
        return adds(E, cfg, r, ts, te, pb, ca)
    s1 = hx.spikes(E, "a", cfg["n1"], ts, te)
    s2 = hx.spikes(E, "b", cfg["n2"], ts, te)
    if r == "get_tau":
        mt = hx.param(E, "mt", "pos")
        m = hx.param(E, "m", "sym")
        a1, a2 = arr(s1), arr(s2)
        for i in range(-1, len(s1)):
            for j in range(-1, len(s2)):
                if i < 0 and j < 0 and False:
                    continue
                u = pb.get_tau(a1, a2, i, j, mt, m)
                v = cgt.get_tau(a1, a2, i, j, mt, m)
                E.observe("tau%d,%d" % (i, j), u)
                E.prove(same(E, u, v), "get_tau: same window")
        return
    sym = cfg.get("par") == "sym"
    m = hx.param(E, "m", "sym") if sym else 0.0
    if r in ("isi_profile", "isi_distance", "spike_profile", "spike_distance"):
        e1 = arr(s1 if s1 else [ts, te])      # get_spikes_non_empty()
        e2 = arr(s2 if s2 else [ts, te])
        if r == "isi_profile":
            A = pb.isi_distance_python(e1, e2, ts, te, m)
            B = cp.isi_profile_cython(e1, e2, ts, te, m)
            E.observe("x", list(np.asarray(A[0])))
            E.observe("y", list(np.asarray(A[1])))
            cmp_arrays(E, A, B, "isi profile")
        elif r == "isi_distance":
            x, y = pb.isi_distance_python(e1, e2, ts, te, m)
            d = cd.isi_distance_cython(e1, e2, ts, te, m)
            E.observe("d", d)
            E.prove(same(E, d * (te - ts), hx.pwc_integral(list(x), list(y))) if E.finite(d) else False,
                    "isi_distance_cython = average of the fallback profile")
        elif r == "spike_profile":
            A = pb.spike_distance_python(e1, e2, ts, te, m, cfg["ri"])
            B = cp.spike_profile_cython(e1, e2, ts, te, m, cfg["ri"])
            E.observe("y1", list(np.asarray(A[1])))
            cmp_arrays(E, A, B, "spike profile")
        else:
            x, y1, y2 = pb.spike_distance_python(e1, e2, ts, te, m, cfg["ri"])
            d = cd.spike_distance_cython(e1, e2, ts, te, m, cfg["ri"])
            E.observe("d", d)
            E.prove(same(E, d * (te - ts), hx.pwl_integral(list(x), list(y1), list(y2))) if E.finite(d) else False,
                    "spike_distance_cython = average of the fallback profile")
        return
    mt = hx.param(E, "mt", "sym") if sym else 0.0
    a1, a2 = arr(s1), arr(s2)
    if r == "coincidence_profile":
        A = pb.coincidence_python(a1, a2, ts, te, mt, m)
        B = cp.coincidence_profile_cython(a1, a2, ts, te, mt, m)
        E.observe("c", list(np.asarray(A[1])))
        cmp_arrays(E, A, B, "coincidence profile")
    elif r == "coincidence_single":
        A = pb.coincidence_single_python(a1, a2, ts, te, mt, m)
        B = cp.coincidence_single_profile_cython(a1, a2, ts, te, mt, m)
        E.observe("c", list(np.asarray(A)))
        cmp_arrays(E, [A], [B], "single-spike coincidence indicator")
    elif r == "coincidence_value":
        st, c, mp = pb.coincidence_python(a1, a2, ts, te, mt, m)
        cv, mv = cd.coincidence_value_cython(a1, a2, ts, te, mt, m)
        E.observe("c,mp", [cv, mv])
        E.prove(hx.sand(E.eq(cv, sum(c[1:-1])), E.eq(mv, sum(mp[1:-1]))),
                "coincidence_value_cython = integral of the fallback profile")
    elif r == "order_profile":
        A = dpb.spike_train_order_profile_python(a1, a2, ts, te, mt, m)
        B = cdir.spike_train_order_profile_cython(a1, a2, ts, te, mt, m)
        E.observe("a", list(np.asarray(A[1])))
        cmp_arrays(E, A, B, "order profile")
    elif r == "order_value":
        st, a, mp = dpb.spike_train_order_profile_python(a1, a2, ts, te, mt, m)
        cv, mv = cdir.spike_train_order_cython(a1, a2, ts, te, mt, m)
        E.observe("c,mp", [cv, mv])
        E.prove(hx.sand(E.eq(cv, sum(a[1:-1])), E.eq(mv, sum(mp[1:-1]))),
                "spike_train_order_cython = integral of the fallback profile")
    elif r == "directionality_profiles":
        A = dpb.spike_directionality_profile_python(a1, a2, ts, te, mt, m)
        B = cdir.spike_directionality_profiles_cython(a1, a2, ts, te, mt, m)
        E.observe("d1", list(np.asarray(A[0])))
        cmp_arrays(E, A, B, "directionality values")
    elif r == "directionality_value":
        d1, d2 = dpb.spike_directionality_profile_python(a1, a2, ts, te, mt, m)
        d = cdir.spike_directionality_cython(a1, a2, ts, te, mt, m)
        E.observe("d", d)
        E.prove(E.eq(d, sum(d1)), "spike_directionality_cython = sum of the fallback values")


def adds(E, cfg, r, ts, te, pb, ca):
    if r == "add_disc":
        f, _ = mkdisc(E, "f", cfg["p1"], ts, te)
        g, _ = mkdisc(E, "g", cfg["p2"], ts, te)
        A = pb.add_discrete_function_python(f.x, f.y, f.mp, g.x, g.y, g.mp)
        B = ca.add_discrete_function_cython(f.x, f.y, f.mp, g.x, g.y, g.mp)
        E.observe("x", list(np.asarray(A[0])))
        cmp_arrays(E, A, B, "add discrete")
        return
    kind = "lin" if r == "add_lin" else "const"
    f = mkfun(E, "f", cfg["p1"], ts, te, kind)
    g = mkfun(E, "g", cfg["p2"], ts, te, kind)
    if kind == "lin":
        A = pb.add_piece_wise_lin_python(f.x, f.y1, f.y2, g.x, g.y1, g.y2)
        B = ca.add_piece_wise_lin_cython(f.x, f.y1, f.y2, g.x, g.y1, g.y2)
    else:
        A = pb.add_piece_wise_const_python(f.x, f.y, g.x, g.y)
        B = ca.add_piece_wise_const_cython(f.x, f.y, g.x, g.y)
    E.observe("x", list(np.asarray(A[0])))
    cmp_arrays(E, A, B, "add piecewise " + kind)
