"""C16  max_tau is an upper bound on the coincidence window."""
import numpy as np
import pyspike
from .. import hx

ID = "C16"
LEVEL = "model_checking"
BOUNDS = {
    "quick": "two trains with 1..3 spikes each, n1+n2 <= 4 (<= 5 for py with MRTS omitted); symbolic 0 < max_tau1 <= max_tau2; MRTS omitted and "
             "symbolic > 0; functions spike_sync_profile, spike_train_order_profile, spike_directionality_values, "
             "filter_by_spike_sync; py and pyx",
    "thorough": "two trains with 1..3 spikes each, n1+n2 <= 5 (3+3 for py with MRTS omitted); same settings",
}
OUTSIDE = "larger trains; more than two trains (the filter accumulates pairwise indicators, C17)"
ASSUMPTIONS = ["'coincident' is read off the functions' own outputs (marks 1, order values +-1, kept spikes); "
               "the bound |s - partner| < max_tau is required for some spike of the other train"]


def configs(tier):
    n = 3
    for be in ("py", "pyx"):
        for mk in ("omit", "pos"):
            for n1 in range(1, n + 1):
                for n2 in range(1, n + 1):
                    if tier == "quick":
                        tot = 5 if (be == "py" and mk == "omit") else 4
                    else:
                        tot = 6 if (be == "py" and mk == "omit") else 5
                    if n1 + n2 > tot:
                        continue
                    yield dict(name="%s-m%s-%d+%d" % (be, mk, n1, n2), backend=be, m=mk, n1=n1, n2=n2,
                               cost=6 ** (n1 + n2) * (3 if mk == "pos" else 1),
                               split_forks=(7 if n1 + n2 >= 4 else None))


def controls(tier):
    # the pre-fix behaviour: the limit only replaces a missing neighbour
    yield dict(name="control-py-no-clamp", backend="py", m="omit", n1=3, n2=3, max_paths=4000,
               mutations=[("pyspike.cython.python_backend", "return min(s1F, s2P, max_tau/2.)", "return min(s1F, s2P)"),
                          ("pyspike.cython.python_backend", "return min(s1P, s2F, max_tau/2.)", "return min(s1P, s2F)")])
    yield dict(name="control-pyx-double-limit", backend="pyx", m="omit", n1=1, n2=1,
               mutations=[("pyx:cython_profiles", "true_max = fmin(true_max, 2*max_tau)",
                           "true_max = fmin(true_max, 4*max_tau)")])


def near(E, x, other, mt):
    """some spike of the other train is strictly closer than mt"""
    return hx.sor(*[E.lt(abs(x - o), mt) for o in other]) if other else False


def marks_from_profile(p, s1, s2):
    """(marks1, marks2) read from a discrete profile (entries 1..-2 in merged order)"""
    ev = hx.merged_events(s1, s2)
    m1 = [0] * len(s1)
    m2 = [0] * len(s2)
    for k, (t, who) in enumerate(ev):
        for tr, i in who:
            val = p.y[k + 1]
            if len(who) == 2:
                val = 2
            (m1 if tr == 0 else m2)[i] = val
    return m1, m2


def program(E, cfg):
    ts, te = hx.edges(E)
    s1 = hx.spikes(E, "a", cfg["n1"], ts, te)
    s2 = hx.spikes(E, "b", cfg["n2"], ts, te)
    mt1 = hx.param(E, "mt1", "pos")
    mt2 = hx.param(E, "mt2", "pos")
    E.assume(mt1 <= mt2)
    kw = {}
    if cfg["m"] != "omit":
        kw["MRTS"] = hx.param(E, "m", cfg["m"])
    a = hx.train(s1, ts, te)
    b = hx.train(s2, ts, te)
    res = {}
    for name, mt in (("mt1", mt1), ("mt2", mt2)):
        p = pyspike.spike_sync_profile(a, b, max_tau=mt, **kw)
        o = pyspike.spike_train_order_profile(a, b, max_tau=mt, **kw)
        v = pyspike.spike_directionality_values([a, b], max_tau=mt, **kw)
        f = pyspike.filter_by_spike_sync([a, b], 0.0, max_tau=mt, **kw)
        E.observe(name + ".sync", list(p.y))
        E.observe(name + ".order", list(o.y))
        E.observe(name + ".kept", [list(t.spikes) for t in f])
        ev = hx.merged_events(s1, s2)
        E.prove(len(p.y) == len(ev) + 2 and len(o.y) == len(ev) + 2, "profile length")
        sm = ([0] * len(s1), [0] * len(s2))
        om = ([0] * len(s1), [0] * len(s2))
        for k, (t, who) in enumerate(ev):
            if len(who) == 2:
                continue          # simultaneous spikes are 0 apart
            tr, i = who[0]
            x = (s1, s2)[tr][i]
            other = (s2, s1)[tr]
            if not _is_zero(p.y[k + 1]):
                sm[tr][i] = 1
                E.prove(near(E, x, other, mt), "SPIKE-Sync mark has a partner closer than max_tau")
            if not _is_zero(o.y[k + 1]):
                om[tr][i] = 1
                E.prove(near(E, x, other, mt), "order-profile mark has a partner closer than max_tau")
        dm = ([0] * len(s1), [0] * len(s2))
        for tr in (0, 1):
            for i in range(len((s1, s2)[tr])):
                if not _is_zero(v[tr][i]):
                    dm[tr][i] = 1
                    E.prove(near(E, (s1, s2)[tr][i], (s2, s1)[tr], mt),
                            "directionality value has a partner closer than max_tau")
        km = ([0] * len(s1), [0] * len(s2))
        for tr in (0, 1):
            src = (s1, s2)[tr]
            kept = list(f[tr].spikes)
            for x in kept:
                # which input spike is it (object identity in symbolic mode, value in floats)
                idx = [i for i in range(len(src)) if (src[i] is x) or (E.mode == "concrete" and src[i] == x)]
                if not E.prove(len(idx) == 1, "kept spike is an input spike"):
                    continue
                km[tr][idx[0]] = 1
                E.prove(near(E, src[idx[0]], (s2, s1)[tr], mt), "kept spike has a partner closer than max_tau")
        res[name] = (sm, om, dm, km)
    for what, k in (("SPIKE-Sync", 0), ("order", 1), ("directionality", 2), ("filter", 3)):
        for tr in (0, 1):
            for i in range(len((s1, s2)[tr])):
                E.prove(res["mt1"][k][tr][i] <= res["mt2"][k][tr][i],
                        "enlarging max_tau never removes a coincidence (%s)" % what)
    # None and 0 both mean "no upper bound"
    pn = pyspike.spike_sync_profile(a, b, max_tau=None, **kw)
    pz = pyspike.spike_sync_profile(a, b, max_tau=0, **kw)
    on = pyspike.spike_train_order_profile(a, b, max_tau=None, **kw)
    oz = pyspike.spike_train_order_profile(a, b, max_tau=0.0, **kw)
    E.prove(len(pn.y) == len(pz.y) and all(_same(u, w) for u, w in zip(pn.y, pz.y)),
            "max_tau=None and max_tau=0 give identical SPIKE-Sync profiles")
    E.prove(len(on.y) == len(oz.y) and all(_same(u, w) for u, w in zip(on.y, oz.y)),
            "max_tau=None and max_tau=0 give identical order profiles")
    fn = pyspike.filter_by_spike_sync([a, b], 0.0, max_tau=None, **kw)
    fz = pyspike.filter_by_spike_sync([a, b], 0.0, max_tau=0, **kw)
    E.prove(all(len(u.spikes) == len(w.spikes) for u, w in zip(fn, fz)),
            "max_tau=None and max_tau=0 keep the same spikes")
    # no bound at all is the limit of large bounds: marks(mt2) subset of marks(None)
    mn1, mn2 = marks_from_profile(pn, s1, s2)
    for tr, mn in ((0, mn1), (1, mn2)):
        for i in range(len(mn)):
            E.prove(res["mt2"][0][tr][i] <= (1 if not _is_zero(mn[i]) else 0),
                    "a finite max_tau never adds a coincidence")


def _is_zero(v):
    """marks are concrete numbers on every path (the kernels store constants)"""
    if isinstance(v, hx.Sym):
        raise TypeError("symbolic mark")
    return float(v) == 0.0


def _same(u, w):
    return float(u) == float(w)
