"""C09  Adding piecewise profiles is pointwise addition on the merged support."""
import itertools

import numpy as np
import pyspike
from .. import hx

ID = "C09"
LEVEL = "model_checking"
BOUNDS = {
    "quick": "pairs: piecewise-constant and piecewise-linear operands with 1..4 pieces each (all 16 size pairs) plus 5+5, 5+(1|2), (1|2)+5, "
             "arbitrary real breakpoints/values on a shared interval; histories: all sequences of length <= 3 over "
             "{add g0, add g1, add g2, mul_scalar(symbolic), copy} on operands with <= 2 pieces; average_profile of 3; "
             "py and pyx add routines",
    "thorough": "pairs with 1..6 pieces each; histories of length <= 4 on operands with <= 2 pieces and length <= 3 "
                "with <= 3 pieces; py and pyx",
}
OUTSIDE = "more pieces / longer histories; float rounding (order independence is exact in real arithmetic)"
ASSUMPTIONS = ["oracle: independent one-sided evaluator (linear scan + interpolation) of the operands",
               "aliasing is observed with numpy.shares_memory and object identity of the array elements"]


def configs(tier):
    P = 4 if tier == "quick" else 6
    for be in ("py", "pyx"):
        for kind in ("const", "lin"):
            for p1 in range(1, P + 1):
                for p2 in range(1, P + 1):
                    yield dict(name="pair-%s-%s-%d+%d" % (be, kind, p1, p2), what="pair", backend=be, kind=kind,
                               p1=p1, p2=p2, fork=(kind == "lin"), cost=3 ** (p1 + p2))
                    if p1 <= 2 and p2 <= 2 and be == "py":
                        # receiver holding integer-valued data (e.g. a PSTH): in the float replays
                        # numpy builds integer-typed arrays from it
                        yield dict(name="pair-intrecv-%s-%s-%d+%d" % (be, kind, p1, p2), what="pair", backend=be,
                                   kind=kind, p1=p1, p2=p2, fork=(kind == "lin"), intrecv=True, validate=12,
                                   cost=3 ** (p1 + p2))
            if tier == "quick":
                # code that only triggers from five pieces on (size-guarded fast paths): a few 5-piece pairs
                for (p1, p2) in [(5, 5), (5, 1), (1, 5), (5, 2), (2, 5)]:
                    yield dict(name="pair-%s-%s-%d+%d" % (be, kind, p1, p2), what="pair", backend=be, kind=kind,
                               p1=p1, p2=p2, fork=(kind == "lin"), cost=3 ** (p1 + p2),
                               split_forks=(6 if p1 + p2 >= 10 else None))
            ops = ["A0", "A1", "A2", "M", "C"]
            L = 3 if tier == "quick" else 4
            for l in range(1, L + 1):
                for seq in itertools.product(ops, repeat=l):
                    if not any(o.startswith("A") for o in seq):
                        continue
                    yield dict(name="hist-%s-%s-%s" % (be, kind, "".join(seq)), what="hist", backend=be, kind=kind,
                               seq=list(seq), P=2, fork=(kind == "lin"), cost=20 * l)
            if be == "py":
                # integer-valued receiver (e.g. the spike counts of a PSTH)
                for seq in (["M"], ["A1", "M"], ["M", "A1"], ["C", "M"]):
                    yield dict(name="histint-%s-%s-%s" % (be, kind, "".join(seq)), what="hist", backend=be, kind=kind,
                               seq=list(seq), P=2, fork=(kind == "lin"), intrecv=True, validate=12, cost=40)
            if tier == "thorough":
                for seq in itertools.product(ops, repeat=3):
                    if sum(o.startswith("A") for o in seq) >= 2:
                        yield dict(name="hist3-%s-%s-%s" % (be, kind, "".join(seq)), what="hist", backend=be,
                                   kind=kind, seq=list(seq), P=3, fork=(kind == "lin"), cost=200)
            yield dict(name="avg-%s-%s" % (be, kind), what="avg", backend=be, kind=kind, P=2, fork=(kind == "lin"),
                       cost=50)


def controls(tier):
    yield dict(name="control-py-const-tail", what="pair", backend="py", kind="const", p1=3, p2=2,
               mutations=[("pyspike.cython.python_backend",
                           "y_new[index+1:index+1+len(y1)-index1-1] = y1[index1+1:] + y2[-1]",
                           "y_new[index+1:index+1+len(y1)-index1-1] = y1[index1+1:] + y2[0]")])
    yield dict(name="control-pyx-lin-interp", what="pair", backend="pyx", kind="lin", p1=3, p2=2, fork=True,
               mutations=[("pyx:cython_add", "(x1[index1+1]-x2[index2]) / (x2[index2+1]-x2[index2])",
                           "(x1[index1+1]-x2[index2]) / (x2[index2+1]-x1[index1])")])
    yield dict(name="control-py-copy-alias", what="hist", backend="py", kind="const", seq=["C", "M"], P=2,
               mutations=[("pyspike.PieceWiseConstFunc", "        self.y = np.array(y)", "        self.y = np.asarray(y)")])


def mkfun(E, tag, P, ts, te, kind, integer=False):
    xs = [ts] + [E.fresh("%sx%d" % (tag, i)) for i in range(1, P)] + [te]
    for u, v in zip(xs[:-1], xs[1:]):
        E.assume(u < v)
    y1 = [E.fresh("%sl%d" % (tag, i), integer=integer) for i in range(P)]
    if kind == "lin":
        y2 = [E.fresh("%sr%d" % (tag, i), integer=integer) for i in range(P)]
        return pyspike.PieceWiseLinFunc(xs, y1, y2)
    return pyspike.PieceWiseConstFunc(xs, y1)


def snapshot(f):
    """(array objects, element lists) of a function"""
    names = ("x", "y1", "y2") if hasattr(f, "y1") else ("x", "y")
    return [(n, getattr(f, n), list(getattr(f, n))) for n in names]


def unchanged(E, f, snap):
    ok = True
    for n, arr, elems in snap:
        cur = getattr(f, n)
        if cur is not arr or len(cur) != len(elems):
            return False
        for a, b in zip(cur, elems):
            if E.mode == "concrete":
                ok = ok and (a == b)
            else:
                ok = ok and (a is b)
    return ok


def one_sided(f, t, side):
    """value of f at t from the right (side=+1) or from the left (side=-1)"""
    x = list(f.x)
    for k in range(len(x) - 1):
        lo, hi = x[k], x[k + 1]
        inside = (t >= lo and t < hi) if side > 0 else (t > lo and t <= hi)
        if inside:
            if hasattr(f, "y1"):
                return f.y1[k] + (f.y2[k] - f.y1[k]) * (t - lo) / (hi - lo)
            return f.y[k]
    raise AssertionError("time outside the support")


def merged_support(funcs):
    pts = []
    for f in funcs:
        for x in list(f.x)[1:-1]:
            k = 0
            dup = False
            while k < len(pts):
                if x == pts[k]:
                    dup = True
                    break
                if x < pts[k]:
                    break
                k += 1
            if not dup:
                pts.insert(k, x)
    return [funcs[0].x[0]] + pts + [funcs[0].x[-1]]


def check_combination(E, res, ops, coefs, tag):
    """res must represent sum_k coefs[k]*ops[k] on the merged support of the
    operands with non-zero coefficient history"""
    lin = hasattr(res, "y1")
    sup = merged_support(ops)
    if not E.prove(len(res.x) == len(sup), tag + ": breakpoints are the union of the operands' breakpoints"):
        return
    n = len(sup) - 1
    E.prove((len(res.y1) == n and len(res.y2) == n) if lin else len(res.y) == n, tag + ": value array lengths")
    for k in range(len(sup)):
        E.prove(E.eq(res.x[k], sup[k]), tag + ": breakpoint")
    for k in range(n):
        E.prove(E.lt(res.x[k], res.x[k + 1]), tag + ": strictly increasing")
        l = 0
        r = 0
        for c, g in zip(coefs, ops):
            l = l + c * one_sided(g, sup[k], +1)
            r = r + c * one_sided(g, sup[k + 1], -1)
        if lin:
            E.prove(E.eq(res.y1[k], l), tag + ": right limit at piece start = combination of operands")
            E.prove(E.eq(res.y2[k], r), tag + ": left limit at piece end = combination of operands")
        else:
            E.prove(E.eq(res.y[k], l), tag + ": piece value = combination of operands")


def program(E, cfg):
    ts, te = hx.edges(E)
    kind = cfg["kind"]
    if cfg["what"] == "pair":
        f = mkfun(E, "f", cfg["p1"], ts, te, kind, integer=cfg.get("intrecv", False))
        g = mkfun(E, "g", cfg["p2"], ts, te, kind)
        f0 = f.copy()
        sg = snapshot(g)
        h2 = g.copy()
        f.add(g)
        _observe(E, "sum", f)
        check_combination(E, f, [f0, g], [1, 1], "f+g")
        E.prove(unchanged(E, g, sg), "the added operand is not modified")
        for n in (("x", "y1", "y2") if kind == "lin" else ("x", "y")):
            E.prove(not np.shares_memory(getattr(f, n), getattr(g, n)) and
                    not np.shares_memory(getattr(f, n), getattr(f0, n)),
                    "result arrays share no memory with the operands")
        # order independence
        h2.add(f0)
        ok = len(h2.x) == len(f.x)
        if E.prove(ok, "g+f has the same breakpoints as f+g"):
            for k in range(len(f.x)):
                E.prove(E.eq(h2.x[k], f.x[k]), "g+f = f+g (breakpoint)")
            for n in (("y1", "y2") if kind == "lin" else ("y",)):
                for k in range(len(f.x) - 1):
                    E.prove(E.eq(getattr(h2, n)[k], getattr(f, n)[k]), "g+f = f+g (value)")
        if cfg["p1"] + cfg["p2"] <= 4:
            with hx.quiet():
                E.prove(E.eq(f.integral(), f0.integral() + g.integral()), "integral of the sum = sum of integrals")
        return
    P = cfg["P"]
    ops = [mkfun(E, "g%d" % k, P, ts, te, kind, integer=(k == 0 and cfg.get("intrecv", False))) for k in range(3)]
    snaps = [snapshot(g) for g in ops]
    if cfg["what"] == "avg":
        from pyspike.DiscreteFunc import average_profile
        avg = average_profile(ops)
        _observe(E, "avg", avg)
        third = 1.0 / 3
        check_combination(E, avg, ops, [third, third, third], "average_profile")
        for g, sn in zip(ops, snaps):
            E.prove(unchanged(E, g, sn), "average_profile leaves its inputs unchanged")
        return
    # histories: start from a copy of g0
    cur = ops[0].copy()
    coefs = [1, 0, 0]
    used = {0}
    parked = []          # (object, snapshot, coefficient vector) of originals left behind by copy
    nm = 0
    for op in cfg["seq"]:
        if op.startswith("A"):
            k = int(op[1])
            cur.add(ops[k])
            coefs[k] = coefs[k] + 1
            used.add(k)
        elif op == "M":
            c = E.fresh("c%d" % nm)
            nm += 1
            cur.mul_scalar(c)
            coefs = [c * v for v in coefs]
        else:
            parked.append((cur, snapshot(cur), list(coefs)))
            orig = cur
            cur = cur.copy()
            for n in (("x", "y1", "y2") if kind == "lin" else ("x", "y")):
                E.prove(getattr(cur, n) is not getattr(orig, n) and
                        not np.shares_memory(getattr(cur, n), getattr(orig, n)),
                        "a copy shares no memory with its original")
    _observe(E, "result", cur)
    us = sorted(used)
    check_combination(E, cur, [ops[k] for k in us], [coefs[k] for k in us], "history")
    for g, sn in zip(ops, snaps):
        E.prove(unchanged(E, g, sn), "operands are never modified")
    for obj, sn, cf in parked:
        E.prove(unchanged(E, obj, sn), "a copy is independent of its original")


def _observe(E, name, f):
    E.observe(name + ".x", list(f.x))
    if hasattr(f, "y1"):
        E.observe(name + ".y1", list(f.y1))
        E.observe(name + ".y2", list(f.y2))
    else:
        E.observe(name + ".y", list(f.y))
