"""C08  Time shift and scaling leave results unchanged; time reversal mirrors them."""
import numpy as np
import pyspike
from .. import hx

ID = "C08"
LEVEL = "model_checking"
BOUNDS = {
    "quick": "two trains; ISI/SPIKE-Sync/order profiles and scalars with 0..3 spikes each (n1+n2<=4), SPIKE (plain and RI) "
             "with 0..2 spikes each; shift by a symbolic real, scaling by the dyadic factors 2, 1/4 and by 3 together with "
             "MRTS and max_tau, reversal about the midpoint of the recording; MRTS/max_tau omitted and symbolic > 0; py and pyx; "
             "MRTS='auto' under shift (<= 2 spikes in total), reversal and scaling by 2 (ISI, up to 2+1 spikes); the same "
             "SpikeTrain objects moved in place and re-evaluated with Reconcile=False (<= 2 spikes in total)",
    "thorough": "ISI/sync/order n1+n2<=6 (max 3 each), SPIKE n1+n2<=4 (max 3 each) for all transforms and parameter settings",
}
OUTSIDE = "symbolic scale factors (would make every branch condition non-linear); lists of more than two trains (C06 reduces them to pairs)"
ASSUMPTIONS = ["both runs share the symbolic inputs, so the transformed profile is compared with the profile of the transformed input for all reals",
               "SPIKE harnesses run in fork mode"]

MEASURES = ["isi", "spike", "spikeRI", "sync", "order"]
TRANSFORMS = ["shift", "scale2", "scale025", "scale3", "reverse"]


def configs(tier):
    q = tier == "quick"
    for be in ("py", "pyx"):
        for meas in MEASURES:
            spike = meas.startswith("spike")
            nmax = (2 if q else 3) if spike else 3
            tot = (4 if spike else (4 if q else 6))
            for n1 in range(nmax + 1):
                for n2 in range(nmax + 1):
                    if n1 + n2 > tot:
                        continue
                    if not spike and meas in ("isi", "sync") and n1 + n2 <= 3:
                        # MRTS='auto' must not depend on where the recording window sits, on the direction of
                        # time (first/last ISI treated alike) nor on the unit of time
                        for tr in ("shift", "reverse", "scale2"):
                            if tr != "shift" and (be == "pyx" or meas == "sync"):
                                continue
                            if n1 + n2 == 3 and (tr != "reverse" or max(n1, n2) != 2):
                                continue          # 2+1 / 1+2: a train with a proper ISI next to an edge spike
                            yield dict(name="%s-%s-%s-auto-%d+%d" % (be, meas, tr, n1, n2), backend=be, meas=meas, tr=tr,
                                       par="auto", n1=n1, n2=n2, validate=2, cost=30 * 5 ** (n1 + n2))
                    if n1 + n2 <= 2 and be == "py" and meas in ("isi", "spike", "sync"):
                        # the SAME SpikeTrain objects evaluated, moved in place (spike times and both edges) and
                        # evaluated again with Reconcile=False: nothing remembered from the first evaluation may
                        # leak into the second
                        yield dict(name="%s-%s-shift-inplace-%d+%d" % (be, meas, n1, n2), backend=be, meas=meas,
                                   tr="shift", par="plain", inplace=True, n1=n1, n2=n2, fork=spike, validate=2,
                                   cost=2 * (9 if spike else 5) ** (n1 + n2))
                    for tr in TRANSFORMS:
                        for par in ("plain", "sym"):
                            if q and tr in ("scale025", "scale3") and (par == "sym" or n1 + n2 > 2 or be == "pyx"):
                                continue
                            if q and spike and n1 + n2 > 3 and (par == "sym" or be == "pyx" or tr == "scale2"):
                                continue
                            yield dict(name="%s-%s-%s-%s-%d+%d" % (be, meas, tr, par, n1, n2), backend=be, meas=meas,
                                       tr=tr, par=par, n1=n1, n2=n2, fork=spike, validate=3,
                                       cost=(9 if spike else 5) ** (n1 + n2) * (3 if par == "sym" else 1),
                                       split_forks=(8 if n1 + n2 >= (3 if spike else 4) else None))


def controls(tier):
    yield dict(name="control-py-isi-tstart-zero", backend="py", meas="isi", tr="shift", par="plain", n1=1, n2=1,
               mutations=[("pyspike.cython.python_backend",
                           "nu1 = max(s1[0] - t_start, s1[1] - s1[0]) if N1 > 1 else s1[0]-t_start",
                           "nu1 = max(s1[0] - t_start, s1[1] - s1[0]) if N1 > 1 else s1[0]")])
    yield dict(name="control-py-sync-window-units", backend="py", meas="sync", tr="scale2", par="sym", n1=1, n2=1,
               mutations=[("pyspike.cython.python_backend", "        true_max = min(true_max, 2*max_tau)\n\n    N1 = len(spikes1)\n    N2 = len(spikes2)\n    i = -1",
                           "        true_max = min(true_max, 2*max_tau, 1.0)\n\n    N1 = len(spikes1)\n    N2 = len(spikes2)\n    i = -1")])
    yield dict(name="control-pyx-isi-end-edge", backend="pyx", meas="isi", tr="reverse", par="plain", n1=2, n2=1,
               mutations=[("pyx:cython_profiles", "nu1 = fmax(t_end-s1[index1], nu1) if N1 > 1 \\", "nu1 = fmax(0.5*(t_end-s1[index1]), nu1) if N1 > 1 \\")])


def transform(tr, ts, te, E):
    if tr == "shift":
        d = E.fresh("delta")
        return (lambda t: t + d), (lambda p: p), False
    if tr.startswith("scale"):
        lam = {"scale2": 2.0, "scale025": 0.25, "scale3": 3.0}[tr]
        return (lambda t: t * lam), (lambda p: p * lam), False
    return (lambda t: ts + te - t), (lambda p: p), True


def run(meas, a, b, kw):
    if meas == "isi":
        k2 = {k: v for k, v in kw.items() if k in ("MRTS", "Reconcile")}
        return pyspike.isi_profile(a, b, **k2), pyspike.isi_distance(a, b, **k2)
    if meas in ("spike", "spikeRI"):
        k2 = {k: v for k, v in kw.items() if k in ("MRTS", "Reconcile")}
        if meas == "spikeRI":
            k2["RI"] = True
        return pyspike.spike_profile(a, b, **k2), pyspike.spike_distance(a, b, **k2)
    if meas == "sync":
        return pyspike.spike_sync_profile(a, b, **kw), pyspike.spike_sync(a, b, **kw)
    return pyspike.spike_train_order_profile(a, b, **kw), (pyspike.spike_train_order(a, b, **kw)
                                                             if (len(a.spikes) + len(b.spikes)) > 0 else 0.0)


def program(E, cfg):
    ts, te = hx.edges(E)
    s1 = hx.spikes(E, "a", cfg["n1"], ts, te)
    s2 = hx.spikes(E, "b", cfg["n2"], ts, te)
    ft, fp, rev = transform(cfg["tr"], ts, te, E)
    kw = {}
    kw2 = {}
    if cfg["par"] == "auto":
        kw["MRTS"] = "auto"
        kw2["MRTS"] = "auto"
    if cfg["par"] == "sym":
        m = hx.param(E, "m", "pos")
        kw["MRTS"] = m
        kw2["MRTS"] = fp(m)
        if cfg["meas"] in ("sync", "order"):
            mt = hx.param(E, "mt", "pos")
            kw["max_tau"] = mt
            kw2["max_tau"] = fp(mt)
    a = hx.train(s1, ts, te)
    b = hx.train(s2, ts, te)
    if rev:
        a2 = hx.train([ft(t) for t in reversed(s1)], ts, te)
        b2 = hx.train([ft(t) for t in reversed(s2)], ts, te)
    else:
        a2 = hx.train([ft(t) for t in s1], ft(ts), ft(te))
        b2 = hx.train([ft(t) for t in s2], ft(ts), ft(te))
    meas = cfg["meas"]
    if cfg.get("inplace"):
        kw["Reconcile"] = False
        kw2["Reconcile"] = False
    p, d = run(meas, a, b, kw)
    if cfg.get("inplace"):
        for (obj, moved) in ((a, a2), (b, b2)):
            obj.spikes = moved.spikes
            obj.t_start = moved.t_start
            obj.t_end = moved.t_end
        a2, b2 = a, b
    q, d2 = run(meas, a2, b2, kw2)
    n = len(p.x)
    E.observe("x", list(p.x))
    E.observe("d", d)
    if not E.prove(len(q.x) == n, "transformed input gives the same number of breakpoints/entries"):
        return
    sign = -1 if (rev and meas == "order") else 1
    disc = hasattr(p, "mp")
    for k in range(n):
        src = n - 1 - k if rev else k
        E.prove(E.eq(q.x[k], ft(p.x[src])), "time axis is transformed, nothing else")
    if disc:
        # the two edge entries carry no event ("never count"): only their times are compared
        for k in range(1, n - 1):
            src = n - 1 - k if rev else k
            E.prove(E.eq(q.y[k], sign * p.y[src]), "profile values unchanged (mirrored%s under reversal)"
                    % (" and negated" if meas == "order" else ""))
            E.prove(E.eq(q.mp[k], p.mp[src]), "multiplicities unchanged")
    elif hasattr(p, "y1"):
        for k in range(n - 1):
            src = n - 2 - k if rev else k
            l, r = (p.y2[src], p.y1[src]) if rev else (p.y1[src], p.y2[src])
            E.prove(_same(E, q.y1[k], l), "SPIKE profile values unchanged (left/right limits exchanged under reversal)")
            E.prove(_same(E, q.y2[k], r), "SPIKE profile values unchanged (left/right limits exchanged under reversal)")
    else:
        for k in range(n - 1):
            src = n - 2 - k if rev else k
            E.prove(_same(E, q.y[k], p.y[src]), "ISI profile values unchanged (mirrored under reversal)")
    E.observe("d'", d2)
    if disc:
        if E.finite(d) or E.finite(d2):
            E.prove(E.eq(d2, sign * d), "scalar result unchanged (order value changes sign under reversal)")
    elif E.finite(d) or E.finite(d2):
        # ISI/SPIKE distance = time average of the profile, whose values were just proved to be
        # unchanged/mirrored; the averaging identity is independent of the values (abstraction)
        # for the Python route and C05/C12's obligation for the single-pass .pyx kernels
        E.prove(E.finite(d) and E.finite(d2), "scalar result finite on both inputs")
        if cfg["backend"] == "py":
            for (pp_, dd_) in ((p, d), (q, d2)):
                T_ = pp_.x[-1] - pp_.x[0]
                if hasattr(pp_, "y1"):
                    I_ = hx.pwl_integral(list(pp_.x), list(pp_.y1), list(pp_.y2))
                    at = list(pp_.y1) + list(pp_.y2)
                else:
                    I_ = hx.pwc_integral(list(pp_.x), list(pp_.y))
                    at = list(pp_.y)
                E.prove(E.eq_abs(dd_ * T_, I_, at), "distance = average of its (unchanged / mirrored) profile")


def _same(E, u, v):
    if not E.finite(u) and not E.finite(v):
        return True
    return E.eq(u, v)
