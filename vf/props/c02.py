"""C02  SPIKE-profile equals the SPIKE-distance definition (plain, RI, adaptive)."""
import pyspike
from .. import hx

ID = "C02"
LEVEL = "model_checking"
BOUNDS = {
    "quick": "two trains with 0..2 spikes each plus (0|1)+4 in both orders (py, MRTS omitted) (all 9 size pairs; n1+n2 <= 3 when MRTS is symbolic), RI in {False, True}, MRTS omitted and symbolic >= 0, "
             "backends py and pyx; profile compared at the left and right limit of every piece; scalar distance; "
             "evaluation f(t) at a symbolic time for n1+n2 <= 2",
    "thorough": "as quick plus 2+4 / 4+2 (py, plain, MRTS omitted), (0|1)+4 also pyx; 0..3 spikes each with n1+n2 <= 4 for all variants (symbolic MRTS included), 3+2 / 2+3 for plain/MRTS omitted/py",
}
OUTSIDE = "more spikes; float rounding"
ASSUMPTIONS = ["oracle: hx.spike_profile_oracle - previous/following spike by scan, nearest-spike distance as a global "
               "minimum over the other train's spikes and its two mirrored auxiliary spikes, linear interpolation, "
               "constant contribution before the first / after the last spike, documented combination",
               "fork mode: max/min/abs fork so that every path is free of if-then-else terms"]


def configs(tier):
    n = 2 if tier == "quick" else 3
    for be in ("py", "pyx"):
        for ri in (0, 1):
            for mk in ("omit", "sym"):
                for n1 in range(n + 1):
                    for n2 in range(n + 1):
                        if tier != "quick" and n1 + n2 > 4 and not (be == "py" and ri == 0 and mk == "omit" and n1 + n2 == 5):
                            continue
                        if tier == "quick" and mk == "sym" and n1 + n2 > 3:
                            continue
                        yield dict(name="%s-ri%d-m%s-%d+%d" % (be, ri, mk, n1, n2), what="profile", backend=be,
                                   ri=ri, m=mk, n1=n1, n2=n2, fork=True, cost=8 ** (n1 + n2) * (2 if mk == "sym" else 1),
                                   split_forks=(8 if n1 + n2 >= 3 else None), validate=3)
                # asymmetric pairs with one long train (code that only triggers from 4 spikes on)
                if mk == "omit" and (be == "py" or tier != "quick"):
                    for (n1, n2) in ((1, 4), (4, 1), (0, 4), (4, 0)) + (((2, 4), (4, 2)) if ri == 0 and be == "py" and tier != "quick" else ()):
                        yield dict(name="%s-ri%d-m%s-%d+%d" % (be, ri, mk, n1, n2), what="profile", backend=be,
                                   ri=ri, m=mk, n1=n1, n2=n2, fork=True, cost=8 ** (min(n1, n2) + 3),
                                   split_forks=9, validate=3)
                for n1, n2 in ((0, 1), (1, 1), (2, 0), (1, 0), (0, 2)) + (((2, 1), (1, 2)) if tier != "quick" else ()):
                    if mk == "sym" and tier == "quick":
                        continue
                    yield dict(name="call-%s-ri%d-m%s-%d+%d" % (be, ri, mk, n1, n2), what="call", backend=be,
                               ri=ri, m=mk, n1=n1, n2=n2, fork=True, cost=8 ** (n1 + n2) * 3,
                               split_forks=(7 if n1 + n2 >= 2 else None), validate=3)


def controls(tier):
    yield dict(name="control-py-restart-cursor", what="profile", backend="py", ri=0, m="omit", n1=2, n2=2, fork=True,
               max_paths=3000,
               mutations=[("pyspike.cython.python_backend",
                           "dt_f1 = get_min_dist(t_f1, t2, index2, t_aux2[0], t_aux2[1])\n                isi1 = t_f1-t_p1",
                           "dt_f1 = get_min_dist(t_f1, t2, index2+1, t_aux2[0], t_aux2[1])\n                isi1 = t_f1-t_p1")])
    yield dict(name="control-pyx-aux-spike", what="profile", backend="pyx", ri=0, m="omit", n1=2, n2=1, fork=True,
               mutations=[("pyx:cython_profiles", "t_aux1[0] = fmin(t_start, 2*t1[0]-t1[1]) if N1 > 1 else t_start",
                           "t_aux1[0] = t_start")])


def program(E, cfg):
    ts, te = hx.edges(E)
    s1 = hx.spikes(E, "a", cfg["n1"], ts, te)
    s2 = hx.spikes(E, "b", cfg["n2"], ts, te)
    kw = {}
    m = 0.0
    if cfg["m"] == "sym":
        m = hx.param(E, "m", "sym")
        kw["MRTS"] = m
    if cfg["ri"]:
        kw["RI"] = True
    a = hx.train(s1, ts, te)
    b = hx.train(s2, ts, te)
    p = pyspike.spike_profile(a, b, **kw)
    E.observe("x", list(p.x))
    E.observe("y1", list(p.y1))
    E.observe("y2", list(p.y2))
    ox, oy1, oy2 = hx.spike_profile_oracle(s1, s2, ts, te, m, cfg["ri"])
    if not E.prove(len(p.x) == len(ox) and len(p.y1) == len(ox) - 1 and len(p.y2) == len(ox) - 1,
                   "breakpoints: edges plus distinct interior spike times"):
        return
    for k in range(len(ox)):
        E.prove(E.eq(p.x[k], ox[k]), "breakpoint")
    for k in range(len(oy1)):
        E.prove(E.eq(p.y1[k], oy1[k]), "value at the start of a piece = instantaneous dissimilarity")
        E.prove(E.eq(p.y2[k], oy2[k]), "value at the end of a piece = instantaneous dissimilarity")
    # zero where both trains spike together (interior shared times are breakpoints)
    for k in range(1, len(ox) - 1):
        shared = any(x == ox[k] for x in s1) and any(x == ox[k] for x in s2)
        if shared:
            E.prove(hx.sand(E.eq(p.y2[k - 1], 0), E.eq(p.y1[k], 0)), "profile is 0 where both trains spike together")
    if cfg["what"] == "profile":
        d = pyspike.spike_distance(a, b, **kw)
        E.observe("distance", d)
        if cfg["backend"] == "py":
            # same profile object: an aggregation identity in the profile values
            ok = E.eq_abs(d * (te - ts), hx.pwl_integral(list(p.x), list(p.y1), list(p.y2)), list(p.y1) + list(p.y2))
        else:
            ok = E.eq(d * (te - ts), hx.pwl_integral(list(p.x), list(p.y1), list(p.y2)))
        E.prove(ok, "distance = time average of the profile")
    else:
        t = E.fresh("t")
        E.assume(t >= ts)
        E.assume(t <= te)
        v = p(t)
        E.observe("S(t)", v)
        # The end values of every piece were just proved equal to the definition; what is left is
        # that f(t) interpolates linearly inside the piece containing t (midpoint rule at interior
        # breakpoints, one-sided at the ends) - an identity that does not depend on the values
        # (value abstraction).
        X, Y1, Y2 = list(p.x), list(p.y1), list(p.y2)
        exp = None
        for k in range(len(X) - 1):
            if t > X[k] and t < X[k + 1]:
                exp = Y1[k] + (Y2[k] - Y1[k]) * (t - X[k]) / (X[k + 1] - X[k])
        if exp is None:
            if t == X[0]:
                exp = Y1[0]
            elif t == X[-1]:
                exp = Y2[-1]
            else:
                for k in range(1, len(X) - 1):
                    if t == X[k]:
                        exp = 0.5 * (Y2[k - 1] + Y1[k])
        E.prove(E.eq_abs(v, exp, Y1 + Y2), "S(t) equals the instantaneous dissimilarity at every time")
