"""C20  Merging and histogramming conserve every spike."""
import itertools
import sys

import numpy as np
import pyspike
from .. import hx
from ..engine import PathAbort

ID = "C20"
LEVEL = "model_checking"
BOUNDS = {
    "quick": "merge_spike_trains: 3 trains with 0..2 spikes each and 2 trains with 0..3 (shared times across trains allowed); "
             "psth: 1..3 trains with <= 3 spikes in total, bin size symbolic with 1, 2 or 4 bins; generate_poisson_spikes: rate "
             "in {0.5, 2}, symbolic interval of length <= 2, exponential draws arbitrary positive reals, at most 3 refills",
    "thorough": "merge: 3 trains 0..3 spikes (sum <= 6), 4 trains 0..1; psth: <= 4 spikes, 1..4 bins; Poisson: rate in {0.5, 1, 2.5}",
}
OUTSIDE = "more spikes/bins; Poisson paths needing more than 3 refills (aborted and counted); the statistical distribution of the generated trains"
ASSUMPTIONS = ["np.linspace(a,b,n+1) modelled as a + i*(b-a)/n and np.histogram(x, bins) as counts per half-open bin with the "
               "last bin closed (numpy's documented contract); np.random.exponential returns arbitrary positive reals",
               "what is decided is PySpike's use of these routines"]


def configs(tier):
    q = tier == "quick"
    sizes = [ns for ns in itertools.product(range(3), repeat=3)] + [ns for ns in itertools.product(range(4), repeat=2)]
    if not q:
        sizes += [ns for ns in itertools.product(range(4), repeat=3) if sum(ns) <= 6 and max(ns) == 3]
        sizes += [ns for ns in itertools.product(range(2), repeat=4)]
    for ns in sizes:
        yield dict(name="merge-%s" % "+".join(map(str, ns)), what="merge", backend="py", ns=list(ns),
                   cost=5 ** sum(ns), split_forks=(8 if sum(ns) >= 5 else None))
    psizes = [(0,), (1,), (2,), (3,), (1, 1), (2, 1), (0, 2), (1, 1, 1), (1, 0, 1)]
    if not q:
        psizes += [(2, 2), (4,), (3, 1), (2, 1, 1)]
    for ns in psizes:
        for k in ((1, 2, 4) if q else (1, 2, 3, 4)):
            yield dict(name="psth-%s-bins%d" % ("+".join(map(str, ns)), k), what="psth", backend="py", ns=list(ns),
                       bins=k, int_bound=6, cost=(k + 1) ** sum(ns) * 4, validate=(0 if k == 3 else 4),
                       split_forks=(7 if sum(ns) >= 3 else None))
    for rate in ((0.5, 2.0) if q else (0.5, 1.0, 2.5)):
        yield dict(name="poisson-rate%s" % rate, what="poisson", backend="py", rate=rate, int_bound=8, cost=500,
                   split_forks=6, validate=4)


def controls(tier):
    yield dict(name="control-merge-unique", what="merge", backend="py", ns=[1, 1, 0],
               mutations=[("pyspike.spikes", "    merged_spikes.sort()\n", "    merged_spikes = np.unique(merged_spikes)\n")])
    yield dict(name="control-psth-bins", what="psth", backend="py", ns=[2], bins=2, int_bound=6,
               mutations=[("pyspike.psth", "                       bin_count+1)", "                       bin_count+2)")])
    yield dict(name="control-poisson-closed-end", what="poisson", backend="py", rate=0.5, int_bound=8,
               mutations=[("pyspike.spikes", "    spikes = spikes[spikes < T_end]", "    spikes = spikes[spikes <= T_end]")])


class NPWithStubs(object):
    """numpy (or the symbolic proxy) with linspace/histogram contract models
    and a scripted exponential generator"""

    def __init__(self, base, E, script):
        self._base = base
        self._E = E
        self.random = script

    def __getattr__(self, n):
        return getattr(self._base, n)

    def linspace(self, a, b, num):
        out = np.empty(num, dtype=object)
        for i in range(num):
            out[i] = a + i * (b - a) / (num - 1) if i < num - 1 else b
        return out if self._E.mode == "sym" else np.array([float(v) for v in out])

    def histogram(self, x, bins, density=False):
        n = len(bins) - 1
        vals = np.zeros(n, dtype=int)
        for v in x:
            for i in range(n):
                last = (i == n - 1)
                if v >= bins[i] and (v < bins[i + 1] or (last and v <= bins[i + 1])):
                    vals[i] += 1
                    break
        return vals, bins


class ExpScript(object):
    def __init__(self, E, max_calls=4):
        self.E = E
        self.calls = 0
        self.max_calls = max_calls

    def exponential(self, scale, size):
        self.calls += 1
        if self.calls > self.max_calls:
            if self.E.mode == "sym":
                self.E.truncated_bound = True
                raise PathAbort()
            raise hx.eng.AssumptionFailed("more refills than the bound")
        out = []
        for i in range(int(size)):
            v = self.E.fresh("exp%d_%d" % (self.calls, i))
            self.E.assume(v > 0)
            out.append(v)
        return np.array(out, dtype=object if self.E.mode == "sym" else float)


def program(E, cfg):
    what = cfg["what"]
    if what == "merge":
        ts, te = hx.edges(E)
        S = [hx.spikes(E, "abcd"[k], n, ts, te) for k, n in enumerate(cfg["ns"])]
        # only the first train's interval matters; give the others their own edges
        T = [hx.train(S[0], ts, te)] + [hx.train(s, ts, te) for s in S[1:]]
        snaps = [(t.spikes, list(t.spikes)) for t in T]
        mg = pyspike.merge_spike_trains(T)
        out = list(mg.spikes)
        E.observe("merged", out)
        allin = [x for s in S for x in s]
        E.prove(len(out) == len(allin), "merged train holds as many spikes as all inputs together (multiset union)")
        for u, v in zip(out[:-1], out[1:]):
            E.prove(E.le(u, v), "merged spike times are sorted")
        if E.mode == "sym":
            for x in allin:
                E.prove(sum(1 for o in out if o is x) == 1, "every input spike appears exactly once in the merged train")
        else:
            E.prove(sorted(out) == sorted(allin), "merged spikes are the multiset union of the inputs")
        E.prove(hx.sand(E.eq(mg.t_start, ts), E.eq(mg.t_end, te)), "merged train is defined on the first train's interval")
        for t, (arr, el) in zip(T, snaps):
            E.prove(t.spikes is arr and all((a is b) or (E.mode == "concrete" and a == b) for a, b in zip(arr, el)),
                    "merging does not modify its inputs")
        return
    if what == "psth":
        ts, te = hx.edges(E)
        S = [hx.spikes(E, "abc"[k], n, ts, te) for k, n in enumerate(cfg["ns"])]
        T = [hx.train(s, ts, te) for s in S]
        k = cfg["bins"]
        bs = E.fresh("bin")
        E.assume(bs > 0)
        E.assume(bs * k <= te - ts)
        E.assume(bs * (k + 1) > te - ts)
        mod = sys.modules["pyspike.psth"]
        saved = mod.np
        mod.np = NPWithStubs(saved, E, None)
        try:
            h = pyspike.psth(T, bs)
        finally:
            mod.np = saved
        x = list(h.x)
        y = list(h.y)
        E.observe("x", x)
        E.observe("y", [int(v) for v in y])
        if not E.prove(len(x) == k + 1 and len(y) == k, "int(T / bin_size) bins"):
            return
        E.prove(hx.sand(E.eq(x[0], ts), E.eq(x[-1], te)), "bins span the recording")
        w = (te - ts) / k
        for i in range(k):
            E.prove(E.eq(x[i + 1] - x[i], w), "bins are equally wide")
        allsp = [v for s in S for v in s]
        tot = 0
        for i in range(k):
            lo = ts + i * w
            hi = ts + (i + 1) * w if i < k - 1 else te
            cnt = 0
            for v in allsp:
                if v >= lo and (v < hi or (i == k - 1 and v <= hi)):
                    cnt += 1
            E.prove(int(y[i]) == cnt, "bin value = number of spikes of all trains falling into the bin")
            tot += int(y[i])
        E.prove(tot == len(allsp), "bin values sum to the total number of spikes inside the recording")
        return
    # poisson
    ts = E.fresh("ts")
    te = E.fresh("te")
    E.assume(ts < te)
    E.assume(te - ts <= 2)
    rate = cfg["rate"]
    mod = sys.modules["pyspike.spikes"]
    saved = mod.np
    script = ExpScript(E)
    mod.np = NPWithStubs(saved, E, script)
    try:
        st = pyspike.generate_poisson_spikes(rate, [ts, te])
    finally:
        mod.np = saved
    sp = list(st.spikes)
    E.observe("spikes", sp)
    E.observe("refills", script.calls)
    for u, v in zip(sp[:-1], sp[1:]):
        E.prove(E.lt(u, v), "generated spike times are strictly increasing")
    for v in sp:
        E.prove(hx.sand(E.lt(ts, v), E.lt(v, te)), "generated spikes lie inside the requested interval")
    E.prove(hx.sand(E.eq(st.t_start, ts), E.eq(st.t_end, te)), "generated train carries the requested edges")
