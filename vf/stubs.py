"""Layer 2: the bivariate kernels are replaced by a stub that returns an
*arbitrary symbolic profile* per pair of trains (symbolic breakpoints/values
satisfying the representation invariant), so that one run of the generic
multivariate plumbing (pair enumeration, recursive add, 1/M scaling, interval
integration, matrices, index selection) covers every pair result any kernel can
produce.  Trains are concrete dummies identified by their single spike."""
import contextlib
import sys

import pyspike


def dummy_trains(K):
    # train k is identified by its spike time k+1 on [0, 100]
    return [pyspike.SpikeTrain([float(k + 1)], [0.0, 100.0]) for k in range(K)]


def tid(st):
    return int(round(float(st.spikes[0]))) - 1


class PairProfiles(object):
    """per-pair symbolic profiles on a common symbolic interval.
    kind: 'const' (ISI-like), 'lin' (SPIKE-like), 'disc' (sync/order-like).
    pieces: dict pair -> number of pieces / events (default P)."""

    def __init__(self, E, kind, ts, te, P=2, pieces=None, symmetric=True, shared_events=False):
        self.E = E
        self.kind = kind
        self.ts = ts
        self.te = te
        self.P = P
        self.pieces = pieces or {}
        self.data = {}
        self.calls = []
        self.symmetric = symmetric
        self.shared_events = shared_events
        self._shared = None

    def key(self, i, j):
        if self.symmetric and i > j:
            return (j, i)
        return (i, j)

    def get(self, i, j):
        k = self.key(i, j)
        if k not in self.data:
            self.data[k] = self._make(k)
        return self.data[k]

    def _make(self, k):
        E = self.E
        tag = "p%d%d" % k
        n = self.pieces.get(k, self.P)
        if self.kind == "disc":
            if self.shared_events:
                # all pairs have their events at the same (symbolic) times: no
                # ordering forks, the plumbing is compared on values only
                if self._shared is None or len(self._shared) < n:
                    self._shared = [E.fresh("evt%d" % i) for i in range(n)]
                    sh = self._shared
                    if sh:
                        E.assume(sh[0] >= self.ts)
                        E.assume(sh[-1] <= self.te)
                    for u, v in zip(sh[:-1], sh[1:]):
                        E.assume(u < v)
                ev = list(self._shared[:n])
            else:
                ev = [E.fresh("%st%d" % (tag, i)) for i in range(n)]
            if ev and not self.shared_events:
                E.assume(ev[0] >= self.ts)
                E.assume(ev[-1] <= self.te)
            for u, v in zip(ev[:-1], ev[1:]):
                E.assume(u < v)
            if n == 0:
                return ([self.ts, self.te], [1.0, 1.0], [1.0, 1.0])
            ys = [E.fresh("%sy%d" % (tag, i)) for i in range(n)]
            ms = [E.fresh("%sm%d" % (tag, i)) for i in range(n)]
            for m in ms:
                E.assume(m >= 1)
            return ([self.ts] + ev + [self.te], [ys[0]] + ys + [ys[-1]], [ms[0]] + ms + [ms[-1]])
        xs = [self.ts] + [E.fresh("%sx%d" % (tag, i)) for i in range(1, n)] + [self.te]
        for u, v in zip(xs[:-1], xs[1:]):
            E.assume(u < v)
        y1 = [E.fresh("%sl%d" % (tag, i)) for i in range(n)]
        if self.kind == "lin":
            y2 = [E.fresh("%sr%d" % (tag, i)) for i in range(n)]
            return (xs, y1, y2)
        return (xs, y1)

    def profile(self, i, j):
        d = self.get(i, j)
        if self.kind == "disc":
            return pyspike.DiscreteFunc(list(d[0]), list(d[1]), list(d[2]))
        if self.kind == "lin":
            return pyspike.PieceWiseLinFunc(list(d[0]), list(d[1]), list(d[2]))
        return pyspike.PieceWiseConstFunc(list(d[0]), list(d[1]))


@contextlib.contextmanager
def stub_pair_profile(measure, pp):
    """measure in isi|spike|sync|order: replace <measure>_profile_bi in its
    module by a stub returning pp.profile(i, j); calls (pair, kwargs) are
    recorded in pp.calls"""
    modname, fname = {
        "isi": ("pyspike.isi_distance", "isi_profile_bi"),
        "spike": ("pyspike.spike_distance", "spike_profile_bi"),
        "sync": ("pyspike.spike_sync", "spike_sync_profile_bi"),
        "order": ("pyspike.spike_directionality", "spike_train_order_profile_bi"),
    }[measure]
    mod = sys.modules[modname]
    orig = getattr(mod, fname)

    def stub(st1, st2, *args, **kwargs):
        i, j = tid(st1), tid(st2)
        pp.calls.append(((i, j), args, dict(kwargs)))
        return pp.profile(i, j)
    setattr(mod, fname, stub)
    try:
        yield
    finally:
        setattr(mod, fname, orig)
