"""Check driver: expands a property's configurations, explores every one of
them symbolically on all cores, replays counterexamples on the untouched code,
validates sampled paths against the implementation, runs the negative
controls and writes evidence/<id>.json.

exit 0  every path explored, every obligation discharged, controls behaved
exit 1  a counterexample reproduced on the real code (VIOLATION line printed)
exit 2  inconclusive / harness error (solver unknown, non-reproducing
        counterexample, trace mismatch, control not detected)
"""
import importlib
import json
import multiprocessing as mp
import os
import random
import re
import subprocess
import sys
import time
import traceback
from fractions import Fraction

VERIF = os.path.dirname(os.path.dirname(os.path.abspath(__file__)))
EVID = os.environ.get("VERIF_EVIDENCE") or os.path.join(VERIF, "evidence")   # redirected for scratch-tree trials
REPLAYS = os.path.join(EVID, "replays")


def load_prop(pid):
    from . import loader
    loader.init()
    return importlib.import_module("vf.props." + pid.lower())


# ----------------------------------------------------------------- monitoring
_seen_funcs = set()


def _start_monitor():
    try:
        mon = sys.monitoring
        from . import loader
        repo = os.path.abspath(loader.REPO)
        mon.use_tool_id(3, "vf")

        def cb(code, off):
            fn = code.co_filename
            if fn.startswith(repo):
                _seen_funcs.add("%s:%s" % (os.path.relpath(fn.replace("<decythonized>", ""), repo),
                                           code.co_qualname))
            return mon.DISABLE
        mon.register_callback(3, mon.events.PY_START, cb)
        mon.set_events(3, mon.events.PY_START)
    except Exception:
        pass


# ----------------------------------------------------------------- one job
def concrete_run(prop, cfg, inputs, tol=1e-9, known=None):
    """run the harness with floats on the unshimmed code.
    returns dict(status=ok|fail|exception|assume, failed=[tags], observed=[...])"""
    import numpy as np
    from . import engine as eng, loader
    loader.set_mutations(cfg.get("mutations"))
    loader.set_state(cfg.get("backend", "py"), "concrete", False)
    CE = eng.ConcreteEngine(inputs, tol=tol, known=known)
    old = eng.ENG
    eng.set_engine(CE)
    res = dict(status="ok", failed=[], observed=[])
    try:
        with np.errstate(all="ignore"):
            prop.program(CE, cfg)
        res["failed"] = list(CE.failed)
        if CE.failed:
            res["status"] = "fail"
    except eng.AssumptionFailed as e:
        res["status"] = "assume"
        res["message"] = str(e)
    except Exception as e:
        tb = traceback.extract_tb(e.__traceback__)
        where = ""
        for fr in reversed(tb):
            if "/vf/" not in fr.filename:
                where = "%s:%d" % (fr.filename.split("/")[-1], fr.lineno)
                break
        tag = "exception:%s@%s" % (type(e).__name__, where)
        if CE.in_known_region(tag):
            res["status"] = "known"
            res["failed"] = []
            res["observed"] = CE.observed
            return res
        res["status"] = "exception"
        res["failed"] = [tag]
        res["message"] = "%s: %s" % (type(e).__name__, str(e)[:200])
    finally:
        eng.set_engine(old)
    res["observed"] = CE.observed
    return res


def _obs_close(sym, conc, tol=1e-7):
    import math
    import numpy as np
    if isinstance(sym, list):
        try:
            cl = list(conc)
        except TypeError:
            return False
        if len(cl) != len(sym):
            return False
        return all(_obs_close(a, b, tol) for a, b in zip(sym, cl))
    if sym == "poison":
        try:
            return not math.isfinite(float(conc))
        except Exception:
            return False
    if isinstance(sym, bool):
        return bool(conc) == sym
    if sym is None:
        return conc is None
    if isinstance(sym, str):
        try:
            a = float(Fraction(sym))
        except Exception:
            return str(conc) == sym
        try:
            b = float(conc)
        except Exception:
            return False
        if not math.isfinite(b):
            return False
        return abs(a - b) <= tol * (1 + max(abs(a), abs(b)))
    if isinstance(sym, int):
        try:
            return int(conc) == sym
        except Exception:
            return False
    return str(sym) == str(conc)


def run_job(args):
    pid, cfg, tier, seed = args
    t0 = time.time()
    out = dict(cfg=cfg, name=cfg["name"], error=None)
    try:
        from . import engine as eng, loader
        loader.init()
        _start_monitor()
        prop = load_prop(pid)
        loader.set_mutations(cfg.get("mutations"))
        loader.set_state(cfg.get("backend", "py"), "sym", cfg.get("fork", False))
        E = eng.Engine(obl_timeout_ms=cfg.get("obl_timeout_ms", 30000),
                       max_paths=cfg.get("max_paths"), seed=seed,
                       int_bound=cfg.get("int_bound", 8))
        E.deadline = time.time() + cfg.get("job_timeout_s", 480 if tier == "quick" else 3600)
        E.slow_budget_s = cfg.get("slow_budget_s", 3600.0 if cfg.get("obl_timeout_ms", 0) >= 60000 else 600.0)
        E.known = [k for k in load_known().get("findings", [])
                   if k["property"] == pid and re.search(k.get("config", ""), cfg["name"])]
        if cfg.get("control"):
            E.max_cex = 3
            E.known = []
        if cfg.get("split_forks") and not cfg.get("prefixes"):
            E.split_forks = cfg["split_forks"]
        nval = cfg.get("validate", 6 if tier == "quick" else 25)
        E.keep_records = 0
        rng = random.Random(seed * 7919 + hash(cfg["name"]) % 100003)
        # reservoir sampling of paths for trace validation
        orig_after = E._after_path
        E._res = []

        def after():
            i = E.paths
            pick = None
            if len(E._res) < nval:
                pick = len(E._res)
                E._res.append(None)
            else:
                j = rng.randrange(i)
                if j < nval:
                    pick = j
            want_sample = len(E.samples) < 3
            if pick is None and not want_sample:
                return
            m = E._nice_path_model()
            if m is None:
                if pick is not None and E._res[pick] is None:
                    E._res.pop(pick)
                return
            ins = E._inputs_of(m)
            obs = [(n, eng._eval_obs(m, v)) for n, v in E.observed]
            if want_sample:
                E.samples.append(dict(inputs={k: float(v) for k, v in ins.items()},
                                      decisions=len(E.trace),
                                      outputs=[(n, eng._short(o)) for n, o in obs[:6]]))
            if pick is not None:
                E._res[pick] = dict(inputs={k: str(v) for k, v in ins.items()},
                                    observed=obs)
        E._after_path = after
        eng.set_engine(E)
        E.explore(lambda e: prop.program(e, cfg), prefixes=cfg.get("prefixes"))
        out["stats"] = E.stats()
        out["shards"] = [p for p, nf in E.shards]
        out["cex"] = E.cex
        out["cex_overflow"] = getattr(E, "cex_overflow", 0)
        out["unknown"] = E.unknown[:50]
        out["samples"] = E.samples
        # ---- trace validation on the real float code
        validated = 0
        mism = []
        is_control = bool(cfg.get("control"))
        if not is_control:
            for rec in E._res:
                if rec is None:
                    continue
                r = concrete_run(prop, cfg, rec["inputs"], known=E.known)
                if r["status"] in ("assume", "known"):
                    continue
                cobs = r["observed"]
                ok = (r["status"] == "ok" and len(cobs) == len(rec["observed"]))
                if ok:
                    for (n1, v1), (n2, v2) in zip(rec["observed"], cobs):
                        if n1 != n2 or not _obs_close(v1, v2):
                            ok = False
                            mism.append(dict(inputs=rec["inputs"], name=n1,
                                             symbolic=str(v1)[:200], concrete=str(v2)[:200]))
                            break
                elif r["status"] != "ok":
                    # the real float code violates an obligation on the model of
                    # an explored path although the exact-real run did not (float /
                    # dtype specific behaviour): a concrete counterexample
                    out["cex"].append(dict(tag=r["failed"][0] + " [float replay of a path model]",
                                           inputs=rec["inputs"], known=None, trace=0,
                                           message=r.get("message")))
                else:
                    mism.append(dict(inputs=rec["inputs"], name="#observations",
                                     symbolic=len(rec["observed"]), concrete=len(cobs)))
                if ok:
                    validated += 1
        out["validated"] = validated
        out["trace_mismatch"] = mism[:10]
        out["funcs"] = sorted(_seen_funcs)
    except BaseException as e:     # noqa
        out["error"] = "%s: %s\n%s" % (type(e).__name__, e, traceback.format_exc()[-1500:])
    out["wall"] = round(time.time() - t0, 2)
    return out


# ----------------------------------------------------------------- replay
def write_replay(pid, cfg, cex, n):
    os.makedirs(REPLAYS, exist_ok=True)
    path = os.path.join(REPLAYS, "%s-%d.json" % (pid, n))
    ins = cex["inputs"]
    doc = dict(property=pid, cfg=cfg, tag=cex["tag"], inputs=ins,
               inputs_float={k: float(Fraction(v)) for k, v in ins.items()},
               message=cex.get("message"),
               how="run: ./check replay %s  (executes the harness with these "
                   "floats on the unmodified code, no shim)" % path)
    with open(path, "w") as f:
        json.dump(doc, f, indent=1, sort_keys=True)
    return path


def replay_file(path, verbose=True):
    """returns (reproduced: bool|None, detail)"""
    doc = json.load(open(path))
    prop = load_prop(doc["property"])
    r = concrete_run(prop, doc["cfg"], doc["inputs"])
    if verbose:
        print("replay %s property=%s cfg=%s" % (path, doc["property"], doc["cfg"]["name"]))
        print("  inputs:", doc["inputs_float"])
        print("  expected failing obligation:", doc["tag"])
        print("  observed on the real code: status=%s failed=%s %s" %
              (r["status"], r["failed"][:6], r.get("message") or ""))
        for n, v in r["observed"][:12]:
            print("    %s = %s" % (n, str(v)[:160]))
    if r["status"] == "assume":
        return None, r
    return r["status"] in ("fail", "exception"), r


def replay_subprocess(path):
    """fresh interpreter: no shim has ever been installed there"""
    p = subprocess.run([sys.executable, "-m", "vf.runner", "replay", path, "--quiet"],
                       cwd=VERIF, capture_output=True, text=True, timeout=600)
    if p.returncode == 1:
        return True, p.stdout
    if p.returncode == 0:
        return False, p.stdout
    return None, p.stdout + p.stderr


# ----------------------------------------------------------------- main check
def thorough_verified():
    p = os.path.join(VERIF, "thorough_verified.json")
    return set(json.load(open(p))) if os.path.exists(p) else set()


def expand(prop, tier):
    # The deeper configuration set of a property is only used once it has been run end-to-end
    # on the unchanged tree (exit 0); until then `--tier thorough` explores the quick set.
    eff = tier
    if tier == "thorough" and prop.ID not in thorough_verified() and not os.environ.get("VERIF_FORCE_THOROUGH"):
        eff = "quick"
    prop._effective_tier = eff
    cfgs = list(prop.configs(eff))
    names = set()
    for c in cfgs:
        assert c["name"] not in names, c["name"]
        names.add(c["name"])
    return cfgs


def run_check(pid, tier, seed, only=None, jobs=None):
    t0 = time.time()
    pid = pid.upper()
    prop = load_prop(pid)
    cfgs = expand(prop, tier)
    controls = list(prop.controls(getattr(prop, "_effective_tier", tier))) if hasattr(prop, "controls") else []
    for c in controls:
        c["control"] = True
    allcfg = cfgs + controls
    if only:
        allcfg = [c for c in allcfg if re.search(only, c["name"])]
    allcfg.sort(key=lambda c: -c.get("cost", 1))
    nproc = jobs or int(os.environ.get("VERIF_JOBS", "0")) or min(16, os.cpu_count() or 4)
    ctx = mp.get_context("fork")
    results = []
    early_stop_s = float(os.environ.get("VERIF_EARLY_STOP_S", "420" if tier == "quick" else "3000"))
    with ctx.Pool(nproc, maxtasksperchild=8) as pool:
        pending = [pool.apply_async(run_job, ((pid, c, tier, seed),)) for c in allcfg]
        while pending:
            still = []
            for ar in pending:
                if not ar.ready():
                    still.append(ar)
                    continue
                r = ar.get()
                results.append(r)
                # a split job hands back the unexplored subtrees as shards
                shards = r.get("shards") or []
                ngroups = min(len(shards), 40 * nproc)
                for i in range(ngroups):
                    c2 = dict(r["cfg"])
                    c2["prefixes"] = shards[i::ngroups]
                    c2["name"] = "%s#%d" % (r["cfg"]["name"], i)
                    c2["base"] = r["cfg"]["name"]
                    still.append(pool.apply_async(run_job, ((pid, c2, tier, seed),)))
                if os.environ.get("VERIF_VERBOSE"):
                    st = r.get("stats", {})
                    print("  [%s] paths=%s obl=%s cex=%s unk=%s shards=%s wall=%ss %s" % (
                        r["name"], st.get("paths"), st.get("obligations"), st.get("cex"),
                        st.get("unknown"), len(shards), r["wall"], (r["error"] or "")[:300]),
                        flush=True)
            pending = still
            # A tree that breaks the property can make the remaining jobs very slow (path explosion, hard
            # queries).  Once counterexamples exist and the time budget of the tier is used up, the verdict
            # does not need the rest: stop, replay what was found.  Never triggers without a counterexample.
            if pending and time.time() - t0 > early_stop_s and any(
                    r.get("cex") and not r["cfg"].get("control") and not r.get("error") for r in results):
                ncex = sum(len(r.get("cex") or []) for r in results if not r["cfg"].get("control"))
                results.append(dict(name="(early stop)", cfg=dict(name="(early stop)"),
                                    error="exploration stopped after %d s with %d counterexamples found: %d jobs not "
                                          "explored" % (time.time() - t0, ncex, len(pending))))
                pool.terminate()
                pending = []
            if pending:
                time.sleep(0.05)
    results.sort(key=lambda r: r["name"])
    return finish(pid, prop, tier, seed, results, time.time() - t0, partial=bool(only))


def load_known():
    p = os.path.join(VERIF, "known_findings.json")
    if os.path.exists(p):
        return json.load(open(p))
    return dict(findings=[], fixed=[])


def merge_shards(results):
    """fold the shard jobs of a configuration back into one record"""
    by = {}
    order = []
    for r in results:
        base = r["cfg"].get("base", r["cfg"]["name"])
        if base not in by:
            order.append(base)
            by[base] = None
        m = by[base]
        if r["error"]:
            if m is None:
                by[base] = dict(r, name=base)
            else:
                m["error"] = (m["error"] or "") + r["error"]
            continue
        if m is None:
            m = dict(r)
            m["name"] = base
            m["cfg"] = dict(r["cfg"], name=base)
            m["cfg"].pop("prefixes", None)
            m["cfg"].pop("base", None)
            m["stats"] = dict(r["stats"])
            m["cex"] = list(r["cex"])
            m["unknown"] = list(r["unknown"])
            m["samples"] = list(r["samples"])
            m["trace_mismatch"] = list(r["trace_mismatch"])
            m["funcs"] = list(r["funcs"])
            m["jobs"] = 1
            by[base] = m
            continue
        for k, v in r["stats"].items():
            if isinstance(v, bool):
                m["stats"][k] = m["stats"][k] or v
            else:
                m["stats"][k] = m["stats"][k] + v
        m["cex"] += r["cex"]
        m["unknown"] += r["unknown"]
        m["samples"] += r["samples"]
        m["trace_mismatch"] += r["trace_mismatch"]
        m["funcs"] = sorted(set(m["funcs"]) | set(r["funcs"]))
        m["validated"] += r["validated"]
        m["wall"] = round(m["wall"] + r["wall"], 2)
        m["jobs"] += 1
    return [by[b] for b in order]


def finish(pid, prop, tier, seed, results, wall, partial=False):
    results = merge_shards(results)
    problems = []        # inconclusive reasons
    violations = []
    known_hits = {}
    known = [k for k in load_known().get("findings", []) if k["property"] == pid]
    tot = dict(cvc5_unsat=0, cvc5_unknown=0, cvc5_sat=0, paths=0, decisions=0, obligations=0, discharged=0, unknown=0,
               feas_queries=0, obl_queries=0, solver_s=0.0, aborted=0, validated=0,
               trivial=0, divzero_forks=0, exceptions=0)
    funcs = set()
    table = []
    samples = []
    nreplay = 0
    skipped_replays = 0
    control_report = []
    for r in results:
        cfg = r["cfg"]
        if r["error"]:
            problems.append(r["error"] if r["name"] == "(early stop)" else
                            "job %s crashed: %s" % (r["name"], r["error"][:400]))
            continue
        st = r["stats"]
        is_control = bool(cfg.get("control"))
        if not is_control:
            for k in ("cvc5_unsat", "cvc5_unknown", "cvc5_sat", "paths", "decisions", "obligations", "discharged", "unknown",
                      "feas_queries", "obl_queries", "aborted", "trivial",
                      "divzero_forks", "exceptions"):
                tot[k] += st[k]
            tot["solver_s"] += st["feas_s"] + st["obl_s"]
            tot["validated"] += r["validated"]
            funcs.update(r["funcs"])
            for s in r["samples"][:1]:
                if len(samples) < 6:
                    samples.append(dict(config=r["name"], **s))
            table.append(dict(config=r["name"], paths=st["paths"],
                              obligations=st["obligations"], discharged=st["discharged"],
                              unknown=st["unknown"], counterexamples=st["cex"],
                              wall_s=r["wall"]))
            if st["unknown"]:
                problems.append("%s: %d obligations/branches undecided (solver unknown), e.g. %s"
                                % (r["name"], st["unknown"], r["unknown"][:2]))
            if st["truncated"]:
                problems.append("%s: exploration truncated (max_paths/int bound)" % r["name"])
            if st["paths"] == 0:
                problems.append("%s: no feasible path (vacuous harness)" % r["name"])
            for mm in r["trace_mismatch"]:
                problems.append("%s: trace validation mismatch %s" % (r["name"], json.dumps(mm)[:400]))
        # ---- counterexamples -> replay on the real code
        bytag = {}
        harness_err = [c for c in r["cex"] if c["tag"].startswith("exception:") and c["tag"].endswith("@")]
        if harness_err:
            # an exception with no frame in the code under test is a bug of the harness itself
            problems.append("%s: harness error %s %s" % (r["name"], harness_err[0]["tag"], harness_err[0].get("message")))
            r["cex"] = [c for c in r["cex"] if c not in harness_err]
        for c in r["cex"]:
            if c.get("known"):
                kf = [k for k in known if k["id"] == c["known"]]
                if kf and c["known"] not in known_hits:
                    nreplay += 1
                    path = write_replay(pid, cfg, c, nreplay)
                    ok, detail = replay_subprocess(path)
                    if ok:
                        known_hits[c["known"]] = (kf[0], path)
                continue
            bytag.setdefault(c["tag"], []).append(c)
        reproduced_here = 0
        for tag, lst in sorted(bytag.items()):
            rep = None
            if len(violations) >= 8 and not is_control:
                skipped_replays += len(lst)
                continue        # verdict is already a violation; do not replay hundreds more
            for c in lst[:4]:
                if not c["inputs"] and False:
                    continue
                nreplay += 1
                path = write_replay(pid, cfg, c, nreplay)
                ok, detail = replay_subprocess(path)
                if ok:
                    rep = path
                    break
                if ok is None and rep is None:
                    rep = None
            if is_control:
                if rep:
                    reproduced_here += 1
                continue
            if rep:
                violations.append((r["name"], tag, rep, len(lst)))
            else:
                problems.append("%s: counterexample for '%s' did not reproduce on the "
                                "real code (encoding/oracle suspect)" % (r["name"], tag))
        if is_control:
            ok = reproduced_here > 0
            control_report.append(dict(control=r["name"], detected=ok,
                                       counterexamples=st["cex"], paths=st["paths"]))
            if not ok:
                problems.append("negative control %s not detected" % r["name"])
    # ---- evidence
    level = getattr(prop, "LEVEL", "model_checking")
    cov = dict(
        states=tot["paths"], transitions=tot["decisions"],
        traces_validated_against_impl=tot["validated"],
        samples=samples or [dict(note="no path sample")],
        obligations=tot["obligations"], discharged=tot["discharged"],
        undecided=tot["unknown"],
        exhaustive=(not problems),
        solver_queries=tot["feas_queries"] + tot["obl_queries"],
        solver_seconds=round(tot["solver_s"], 2),
        second_solver=dict(tool="cvc5 (python wheel)", sampled_obligations=tot["cvc5_unsat"] + tot["cvc5_unknown"] + tot["cvc5_sat"],
                           agree_unsat=tot["cvc5_unsat"], no_answer_within_2s=tot["cvc5_unknown"], disagree=tot["cvc5_sat"]),
        infeasible_paths_pruned=tot["aborted"],
        division_by_zero_forks=tot["divzero_forks"],
        functions_encoded=sorted(funcs),
        bounds=getattr(prop, "BOUNDS", {}).get(getattr(prop, "_effective_tier", tier), ""),
        configuration_set=getattr(prop, "_effective_tier", tier),
        outside_bounds=getattr(prop, "OUTSIDE", ""),
        configurations=table if len(table) <= 400 else table[:400],
        n_configurations=len(table),
        negative_controls=control_report,
        counterexamples_replayed=nreplay,
        counterexamples_not_replayed_after_8_violations=skipped_replays,
        known_findings_confirmed=[k for k in known_hits],
        inconclusive=problems[:20],
        rule="a state is one feasible path (equivalence class of inputs with the same "
             "branch outcomes) through the real code, enumerated exhaustively by the solver; "
             "every obligation on it is decided for all real inputs of the class",
    )
    if level == "translation_validation":
        cov["programs"] = getattr(prop, "PROGRAMS", lambda t: 0)(tier)
        cov["disagreements_checked"] = tot["obligations"]
    ev = dict(property_id=pid, tier=tier, seed=seed, level=level, coverage=cov,
              assumptions=list(getattr(prop, "ASSUMPTIONS", [])) + COMMON_ASSUMPTIONS,
              wall_s=round(wall, 2), violations=len(violations))
    os.makedirs(EVID, exist_ok=True)
    # a run restricted with --only is a development aid: it must not replace the evidence
    with open(os.path.join(EVID, pid + (".partial.json" if partial else ".json")), "w") as f:
        json.dump(ev, f, indent=1)
    # ---- verdict
    for kid, (kf, rep) in sorted(known_hits.items()):
        print("KNOWN-FINDING: property=%s %s (replay=%s)" % (pid, kf["what"], rep))
    for k in known:
        if k["id"] not in known_hits:
            print("note: known finding %s was not re-observed on this tree" % k["id"])
    print("%s %s: %d configurations, %d paths, %d obligations (%d discharged, %d undecided), "
          "%d traces validated, %d counterexamples replayed, %.1fs"
          % (pid, tier, len(table), tot["paths"], tot["obligations"], tot["discharged"],
             tot["unknown"], tot["validated"], nreplay, wall))
    if violations:
        seen = set()
        for name, tag, rep, n in violations:
            if tag in seen and len(seen) > 8:
                continue
            seen.add(tag)
            print("VIOLATION property=%s replay=%s  (config %s, obligation '%s', %d paths)"
                  % (pid, rep, name, tag, n))
        return 1
    if problems:
        for p in problems[:12]:
            print("INCONCLUSIVE:", p)
        return 2
    print("OK property=%s" % pid)
    return 0


COMMON_ASSUMPTIONS = [
    "arithmetic is exact real arithmetic (z3 Reals); float rounding of output values is outside the claim",
    "numpy runs unmodified on dtype=object arrays; vf.loader patches only module globals (np allocation proxy, float, max/min)",
    "backend 'pyx' is the .pyx source translated by vf/decy.py (source semantics, not a compiled binary); C doubles modelled as reals, x/0 as poison",
    "claims hold only inside the stated bounds (spikes per train, trains, pieces)",
    "z3 4.x/5.x soundness (fresh non-incremental solver per path for obligations)",
]


def main(argv=None):
    import argparse
    ap = argparse.ArgumentParser()
    ap.add_argument("what")
    ap.add_argument("path", nargs="?")
    ap.add_argument("--tier", default=os.environ.get("VERIF_TIER", "quick"))
    ap.add_argument("--only", default=None)
    ap.add_argument("--jobs", type=int, default=None)
    ap.add_argument("--quiet", action="store_true")
    a = ap.parse_args(argv)
    seed = int(os.environ.get("VERIF_SEED", "0") or 0)
    if a.what == "replay":
        ok, r = replay_file(a.path, verbose=not a.quiet)
        if ok is None:
            print("replay inconclusive: input assumption not met in floats")
            sys.exit(3)
        print("REPRODUCED" if ok else "not reproduced")
        sys.exit(1 if ok else 0)
    sys.exit(run_check(a.what, a.tier, seed, a.only, a.jobs))


if __name__ == "__main__":
    main()
