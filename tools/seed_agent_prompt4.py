import sys
pid=sys.argv[1]
prop=open('/tmp/prop_%s.txt'%pid).read()
print(f"""You are helping to evaluate a verification effort for the open-source Python library PySpike (spike-train synchrony measures: ISI-distance, SPIKE-distance, SPIKE-synchronization, spike-train order; piecewise-constant/linear/discrete function classes).

You have your own scratch git worktree of the library at /tmp/wt_{pid} (work ONLY there; never touch /repo or /verif, never look into /verif). The Cython extension is NOT built in this sandbox and cannot be built (no Cython); the pure-Python fallback (pyspike/cython/python_backend.py, pyspike/cython/directionality_python_backend.py and the other .py files) is what actually runs. Python interpreter: /venv/bin/python. Run things as `cd /tmp/wt_{pid} && PYTHONPATH=/tmp/wt_{pid} /venv/bin/python ...` and confirm once that `import pyspike; print(pyspike.__file__)` points into /tmp/wt_{pid}.

The existing test suite is run with:
  cd /tmp/wt_{pid} && PYTHONPATH=/tmp/wt_{pid} /venv/bin/python -m pytest -q -p no:cacheprovider --timeout=900 --continue-on-collection-errors
On the unchanged tree 49 tests pass and exactly one (test/numeric/test_regression_random_spikes.py::test_regression_random) fails; that is the baseline.

Here is a semantic property that the library is supposed to satisfy:

---
{prop}
---

YOUR TASK: produce TWO different, independent, realistic source changes (bugs a maintainer could plausibly introduce: an off-by-one, a flipped comparison, a wrong index, a dropped edge-case branch, a stale variable, an aliasing slip, a wrong default ...) to the library's Python source in the worktree, each of which
  (a) BREAKS the property above,
  (b) still imports fine and still passes the existing test suite exactly as the baseline does (49 pass, same single failure), and
  (c) needs something SPECIFIC AND SUBTLE to manifest (see the flavours below) - a particular kind of input (ties, spikes exactly on an edge, empty or one-spike trains, a particular interleaving, particular parameter combination, a particular sequence of operations, a non-prefix index selection ...) or two cooperating sites that each look fine alone - NOT something that ordinary use would expose at once.
Flavours wanted in this round (pick two DIFFERENT ones, and avoid the most obvious single-token edit in the main two-train merge loop - those have been studied already): (i) two cooperating edits in different functions/files that each look harmless alone (e.g. a helper changes its convention and only one of its callers is adapted); (ii) a bug that needs a multi-step sequence of API calls on the same objects (state, aliasing, caching, in-place modification of an argument or of a shared default); (iii) a bug that needs a particular COMBINATION of keyword arguments (MRTS with max_tau, MRTS='auto' with indices, interval with RI, Reconcile=False ...), or three or more spike trains with a particular pattern (an empty train among them, duplicated trains, a non-ascending `indices` selection); (iv) a bug in a rarely used public entry point or call form of the same family (tuple/list/varargs call forms, *_matrix, *_multi, interval lists, edge-exact intervals). Prefer changes in different functions/mechanisms for the two. Keep each change small (a few lines). Do not edit tests.

For EACH change k in (1, 2) deliver, under /tmp/seed_{pid}/:
  - patch{{k}}.diff : the change as `git diff` output relative to the worktree's HEAD (must apply with `git apply` on a clean checkout of HEAD),
  - demo{{k}}.py    : a small self-contained program (uses only pyspike + numpy) that exits with status 1 (printing what went wrong) when the change is applied and exits 0 on the unchanged tree; it must be runnable as `PYTHONPATH=<tree> /venv/bin/python demo{{k}}.py`,
  - note{{k}}.txt   : 3-6 lines: which file/function was changed, how the property is violated, and what specific input/sequence is needed to see it.
Work on one change at a time: make it, run the test suite, run the demo with and without it (use `git stash` or `git checkout -- .` to get back to the clean tree), save the diff, then `git checkout -- .` before starting the second. Leave the worktree clean (git status clean) when you finish. Verify yourself that each patch applies cleanly to the clean tree (`git apply --check`).

Final answer: a short summary of the two changes and confirmation of the three requirements for each (test-suite result line, demo exit codes with/without).""")
