#!/usr/bin/env python3
"""Markdown table of what the last runs covered (from evidence/*.json) and of the seeded changes."""
import glob, json, os
V = os.path.dirname(os.path.dirname(os.path.abspath(__file__)))
print("| id | tier | configs | paths | obligations | undecided | traces validated | solver s | wall s | controls |")
print("|---|---|---|---|---|---|---|---|---|---|")
for p in sorted(glob.glob(os.path.join(V, "evidence", "C*.json"))):
    e = json.load(open(p)); c = e["coverage"]
    print("| %s | %s | %s | %s | %s | %s | %s | %s | %s | %s |" % (
        e["property_id"], e["tier"], c.get("n_configurations"), c.get("states"), c.get("obligations"),
        c.get("undecided"), c.get("traces_validated_against_impl"), c.get("solver_seconds"), e["wall_s"],
        "/".join("%s" % ("ok" if k["detected"] else "MISSED") for k in c.get("negative_controls", []))))
print()
print("| seed | breaks | needs | demo clean/changed | tests | checks |")
print("|---|---|---|---|---|---|")
for d in sorted(glob.glob(os.path.join(V, "seeded", "*"))):
    mp = os.path.join(d, "meta.json")
    if not os.path.exists(mp):
        continue
    m = json.load(open(mp))
    ch = "; ".join("%s: exit %s (%s VIOLATION lines)" % (k, v["exit"], v["violation_lines"]) for k, v in m.get("checks", {}).items())
    print("| %s | %s | %s | %s/%s | %s | %s |" % (os.path.basename(d), m.get("breaks_property"), (m.get("needs") or "")[:120].replace("|", "/"),
          m.get("demo_exit_clean_tree"), m.get("demo_exit_with_change"), m.get("test_suite_with_change"), ch))
