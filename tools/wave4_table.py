#!/usr/bin/env python3
"""Markdown table of the fourth-wave seeded changes (seeded/<id>-3, -4) from their meta.json / note.txt;
also fills 'needs', 'wave' and 'base_commit' into the meta files."""
import glob
import json
import os
import re

V = os.path.dirname(os.path.dirname(os.path.abspath(__file__)))
BASE = "f5e74bf"       # /repo HEAD the fourth-wave patches were written against

print("| seed | change (from the sub-agent's note) | demo exit (clean/changed) | 49 tests | checks (quick, scratch worktree at %s) |" % BASE)
print("|---|---|---|---|---|")
for d in sorted(glob.glob(os.path.join(V, "seeded", "C??-[34]"))):
    if os.path.basename(d)[:3] not in ("C04", "C05", "C07", "C08", "C10", "C11", "C13", "C14", "C16", "C18"):
        continue
    mp = os.path.join(d, "meta.json")
    m = json.load(open(mp)) if os.path.exists(mp) else {}
    note = open(os.path.join(d, "note.txt")).read() if os.path.exists(os.path.join(d, "note.txt")) else ""
    flat = re.sub(r"\s+", " ", note).strip()
    m.setdefault("needs", flat[:600])
    m["wave"] = 4
    m["base_commit"] = BASE
    json.dump(m, open(mp, "w"), indent=1)
    ch = "; ".join("%s: exit %s%s" % (k.replace("@scratch", ""), v["exit"], " VIOLATION" if v["violation_lines"] else (" (trial not completed)" if v["exit"] is None else
                                       " (inconclusive)" if v["exit"] == 2 else " (missed)" if v["exit"] == 0 else ""))
                   for k, v in m.get("checks", {}).items())
    print("| %s | %s | %s/%s | %s | %s |" % (os.path.basename(d), flat[:230].replace("|", "/"), m.get("demo_exit_clean_tree"),
                                           m.get("demo_exit_with_change"),
                                           "pass" if "49 passed" in (m.get("test_suite_with_change") or "") else m.get("test_suite_with_change"),
                                           ch))
