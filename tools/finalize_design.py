#!/usr/bin/env python3
"""Writes the generated tables into DESIGN.md: the fourth-wave seed table (placeholder WAVE4TABLE or the
previously generated block) and refreshed rows of the quick-tier coverage table."""
import json
import os
import re
import subprocess

V = os.path.dirname(os.path.dirname(os.path.abspath(__file__)))
p = os.path.join(V, "DESIGN.md")
s = open(p).read()
tab = subprocess.run([os.path.join(V, ".venv/bin/python"), os.path.join(V, "tools/wave4_table.py")],
                     capture_output=True, text=True).stdout.strip()
block = "<!-- wave4 table begin -->\n" + tab + "\n<!-- wave4 table end -->"
if "WAVE4TABLE" in s:
    s = s.replace("WAVE4TABLE", block)
else:
    s = re.sub(r"<!-- wave4 table begin -->.*?<!-- wave4 table end -->", lambda m: block, s, flags=re.S)
# coverage rows
for pid in ["C%02d" % i for i in range(1, 21)]:
    ep = os.path.join(V, "evidence", pid + ".json")
    if not os.path.exists(ep):
        continue
    e = json.load(open(ep))
    c = e["coverage"]
    row = "| %s | %s | %s | %s | %s | %s | %s | %s | %s | %s |" % (
        e["property_id"], e["tier"], c.get("n_configurations"), c.get("states"), c.get("obligations"),
        c.get("undecided"), c.get("traces_validated_against_impl"), c.get("solver_seconds"), e["wall_s"],
        "/".join("%s" % ("ok" if k["detected"] else "MISSED") for k in c.get("negative_controls", [])))
    s = re.sub(r"^\| %s \| quick \|.*$" % pid, lambda m: row, s, count=1, flags=re.M)
open(p, "w").write(s)
print("DESIGN.md updated")
