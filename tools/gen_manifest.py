#!/usr/bin/env python3
"""Regenerates /verif/MANIFEST.json from the table below (kept valid at all
times; properties without a check are listed under not_applicable)."""
import json
import os

V = os.path.dirname(os.path.dirname(os.path.abspath(__file__)))

TECH = ("bounded symbolic execution of the real Python/.pyx code over z3 Reals "
        "(path enumeration by the solver, per-path proof obligations against an "
        "independent oracle, counterexamples replayed on the unmodified float code)")

NOTE = ("trusted: z3; CPython+numpy executing the real code on dtype=object arrays; "
        "vf/loader.py shims (np allocation proxy, float, max/min); vf/decy.py translation of the "
        ".pyx sources for backend 'pyx' (no Cython compiler available); exact real arithmetic "
        "instead of float64 (rounding outside the claim); bounds as stated in evidence.coverage.bounds")

MC = "model_checking"
CHECKS = {
    # id: (category, text, design_ref)
    "C01": (MC, "every feasible interleaving/tie/edge pattern of two trains within the bound is enumerated by the solver and "
            "the returned ISI profile and distance are proved equal to the definition for all real spike times of that "
            "class; py fallback and translated .pyx kernels", "DESIGN.md 6/C01"),
    "C02": (MC, "SPIKE profile (plain, RI, adaptive) proved equal to an independent global-definition oracle at both ends of "
            "every piece, for every path of the real kernels within the bound (fork mode, non-linear obligations by z3/nlsat)",
            "DESIGN.md 6/C02"),
    "C03": (MC, "coincidence marks, multiplicities, per-spike indicator and scalar proved equal to the all-pairs definition "
            "for every interleaving incl. exact ties between distance and window", "DESIGN.md 6/C03"),
    "C04": (MC, "order profile, directionality values/scalars/matrix and synfire indicator proved against the pairwise "
            "definition with the leader/follower sign, bivariate and 3-4 trains", "DESIGN.md 6/C04"),
    "C05": (MC, "scalar = profile average proved for the real kernels (incl. the separately written single-pass .pyx routines) "
            "and, for any pair profile, through the generic multivariate route with symbolic sub-intervals", "DESIGN.md 6/C05"),
    "C06": (MC, "multivariate profile/distance/matrix proved to be the all-pairs aggregate for arbitrary symbolic pair "
            "profiles, under all permutations of the list; plus end-to-end with the real kernels", "DESIGN.md 6/C06"),
    "C07": (MC, "range, symmetry and identity obligations proved per path; the non-linear SPIKE bound S<=1 only for the sizes "
            "the solver decides (undecided = inconclusive, never pass)", "DESIGN.md 6/C07"),
    "C08": (MC, "metamorphic relations (shift by a symbolic real, dyadic/integer scaling, reversal) proved between two runs "
            "that share their symbolic inputs, incl. MRTS='auto' and re-evaluation of the same objects moved in place", "DESIGN.md 6/C08"),
    "C09": (MC, "add/mul_scalar/copy histories on symbolic piecewise functions proved to be the pointwise linear combination on "
            "the merged support, incl. aliasing and operand immutability; py and .pyx add routines; integer-typed receivers through "
            "float replays of the solver's path models", "DESIGN.md 6/C09"),
    "C10": (MC, "integral/avrg/evaluation/plottable data of symbolic piecewise functions proved exact for every position of "
            "symbolic interval ends and times relative to the breakpoints, also along query/modify/query sequences on one object", "DESIGN.md 6/C10"),
    "C11": (MC, "discrete-profile add, open-interval integration, ratio convention and smoothing window proved against "
            "dictionary-merge / unit-contribution oracles", "DESIGN.md 6/C11"),
    "C12": ("translation_validation", "each of the 15 duplicated backend routines: the Python fallback and the de-cythonized "
            ".pyx source are run on the same symbolic arguments and their outputs proved equal path by path; single-pass "
            "distances against the average of the corresponding profile", "DESIGN.md 6/C12, 3"),
    "C13": (MC, "reconcile_spike_trains proved against its contract on unordered/repeated symbolic spike times and different "
            "edges; every public entry point proved insensitive to order/repetition and non-mutating, also across sequences of calls "
            "on the same objects", "DESIGN.md 6/C13"),
    "C14": (MC, "all call forms and EVERY index list (size>=2, any order) of a 4-train list proved equivalent as expressions in "
            "per-pair kernel symbols (kernels stubbed), keywords proved to reach the kernel; plus real kernels on 3 trains",
            "DESIGN.md 6/C14"),
    "C15": (MC, "MRTS=0 == omitted, monotonicity in MRTS, no-op region and MRTS='auto' (= explicit pooled RMS threshold) proved "
            "per path; np.sqrt as an uninterpreted non-negative root with its defining equation", "DESIGN.md 6/C15"),
    "C16": (MC, "every coincidence reported by sync/order/directionality/filter proved to have a partner strictly closer than "
            "max_tau; None == 0; monotone in max_tau", "DESIGN.md 6/C16"),
    "C17": (MC, "kept/removed spikes proved equal to the pairwise-definition count against a symbolic threshold (ties "
            "k/(N-1) hit exactly), partition, monotonicity, agreement with the multivariate profile", "DESIGN.md 6/C17"),
    "C18": (MC, "every public measure function on all combinations of degenerate trains: no exception on any path, every "
            "denominator proved non-zero (no non-finite output), well-formed time axes", "DESIGN.md 6/C18"),
    "C20": (MC, "merge: multiset union by object identity + sortedness; psth and Poisson generator against contract models of "
            "numpy's linspace/histogram/exponential", "DESIGN.md 6/C20"),
}
READY = set(CHECKS)

NOT_APPLICABLE = {
    "C19": "text round-trip / file parsing: decimal<->binary float conversion and file I/O run in C code with no "
           "SMT encoding within reach; what remains after stubbing them is enumeration of concrete strings, "
           "not a solver verdict (DESIGN.md section 8)",
}

PENDING = "check not built yet (work in progress; see DESIGN.md section 6 for the plan)"


def main():
    props = [json.loads(l)["id"] for l in open(os.path.join(V, "properties.jsonl"))]
    checks = []
    na = []
    for pid in props:
        if pid in CHECKS and pid in READY:
            cat, text, ref = CHECKS[pid]
            checks.append(dict(
                property_id=pid,
                quick_cmd="./check %s --tier quick" % pid,
                thorough_cmd="./check %s --tier thorough" % pid,
                evidence_file="evidence/%s.json" % pid,
                replay_cmd_template="./check replay {path}",
                engine="vf",
                level_claimed=dict(category=cat, text=text, design_ref=ref),
                level_note=NOTE,
                technique=TECH))
        else:
            na.append(dict(property_id=pid, reason=NOT_APPLICABLE.get(pid, PENDING)))
    man = dict(
        version=1,
        setup_cmd="./setup.sh",
        hooks=dict(guard="PYSPIKE_VERIF",
                   enable="no source hooks: the engine patches module globals of the imported "
                          "pyspike modules from outside (vf/loader.py); nothing in /repo is guarded",
                   baseline_off_cmd="cd /repo && /venv/bin/python -m pytest -ra -q -p no:cacheprovider "
                                    "--timeout=900 --continue-on-collection-errors",
                   source_commits=[], add_only=True),
        engines=[dict(name="vf", path="vf/",
                      serves_properties=sorted(READY),
                      kind_free_text="own path-enumerating symbolic executor (z3 Reals) running the real "
                                     "PySpike code; .pyx kernels via a de-cythonizing front end")],
        checks=checks,
        not_applicable=na,
        notes="exit 0 = held on everything explored; exit 1 + VIOLATION line = counterexample reproduced on "
              "the real code; exit 2 = inconclusive (never success). known_findings.json lists recorded defects.")
    with open(os.path.join(V, "MANIFEST.json"), "w") as f:
        json.dump(man, f, indent=1)
    print("MANIFEST.json: %d checks, %d not_applicable" % (len(checks), len(na)))


if __name__ == "__main__":
    main()
