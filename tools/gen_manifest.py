#!/usr/bin/env python3
"""Regenerates /verif/MANIFEST.json from the table below (kept valid at all
times; properties without a check are listed under not_applicable)."""
import json
import os

V = os.path.dirname(os.path.dirname(os.path.abspath(__file__)))

TECH = ("bounded symbolic execution of the real Python/.pyx code over z3 Reals "
        "(path enumeration by the solver, per-path proof obligations against an "
        "independent oracle, counterexamples replayed on the unmodified float code)")

NOTE = ("trusted: z3; CPython+numpy executing the real code on dtype=object arrays; "
        "vf/loader.py shims (np allocation proxy, float, max/min); vf/decy.py translation of the "
        ".pyx sources for backend 'pyx' (no Cython compiler available); exact real arithmetic "
        "instead of float64 (rounding outside the claim); bounds as stated in evidence.coverage.bounds")

CHECKS = {
    # id: (category, text, design_ref)
    "C01": ("model_checking",
            "every feasible interleaving/tie/edge pattern of two trains with up to 3 (quick) / 4 (thorough) "
            "spikes each is enumerated by the solver and the returned ISI profile and distance are proved equal "
            "to the definition for all real spike times in that class; py fallback and translated .pyx kernels",
            "DESIGN.md section 6 / C01"),
}

NOT_APPLICABLE = {
    "C19": "text round-trip / file parsing: decimal<->binary float conversion and file I/O run in C code with no "
           "SMT encoding within reach; what remains after stubbing them is enumeration of concrete strings, "
           "not a solver verdict (DESIGN.md section 8)",
}

PENDING = "check not built yet (work in progress; see DESIGN.md section 6 for the plan)"


def main():
    props = [json.loads(l)["id"] for l in open(os.path.join(V, "properties.jsonl"))]
    checks = []
    na = []
    for pid in props:
        if pid in CHECKS:
            cat, text, ref = CHECKS[pid]
            checks.append(dict(
                property_id=pid,
                quick_cmd="./check %s --tier quick" % pid,
                thorough_cmd="./check %s --tier thorough" % pid,
                evidence_file="evidence/%s.json" % pid,
                replay_cmd_template="./check replay {path}",
                engine="vf",
                level_claimed=dict(category=cat, text=text, design_ref=ref),
                level_note=NOTE,
                technique=TECH))
        else:
            na.append(dict(property_id=pid, reason=NOT_APPLICABLE.get(pid, PENDING)))
    man = dict(
        version=1,
        setup_cmd="./setup.sh",
        hooks=dict(guard="PYSPIKE_VERIF",
                   enable="no source hooks: the engine patches module globals of the imported "
                          "pyspike modules from outside (vf/loader.py); nothing in /repo is guarded",
                   baseline_off_cmd="cd /repo && /venv/bin/python -m pytest -ra -q -p no:cacheprovider "
                                    "--timeout=900 --continue-on-collection-errors",
                   source_commits=[], add_only=True),
        engines=[dict(name="vf", path="vf/",
                      serves_properties=sorted(CHECKS),
                      kind_free_text="own path-enumerating symbolic executor (z3 Reals) running the real "
                                     "PySpike code; .pyx kernels via a de-cythonizing front end")],
        checks=checks,
        not_applicable=na,
        notes="exit 0 = held on everything explored; exit 1 + VIOLATION line = counterexample reproduced on "
              "the real code; exit 2 = inconclusive (never success). known_findings.json lists recorded defects.")
    with open(os.path.join(V, "MANIFEST.json"), "w") as f:
        json.dump(man, f, indent=1)
    print("MANIFEST.json: %d checks, %d not_applicable" % (len(checks), len(na)))


if __name__ == "__main__":
    main()
