#!/usr/bin/env python3
"""Confirm a seeded change and run checks against it.

usage: try_seed.py <seed dir with patch.diff, demo.py> <property> [check ids ...] [--tier quick] [--only REGEX]

Steps (all on /repo itself, undone afterwards):
  1. demo on the clean tree must exit 0
  2. git apply the patch; demo must exit non-zero; the pinned test-suite must still give 49 passes
  3. run ./check <id> for each id: expected exit 1 with a VIOLATION line
  4. git checkout -- . (always)
Writes/updates <seed dir>/meta.json.
"""
import json
import os
import subprocess
import sys
import time

REPO = os.environ.get("SEED_REPO", "/repo")   # a scratch worktree may be used for preliminary triage
VERIF = "/verif"


def sh(cmd, **kw):
    return subprocess.run(cmd, shell=True, capture_output=True, text=True, **kw)


def main():
    args = [a for a in sys.argv[1:] if not a.startswith("--")]
    tier = "quick"
    only = None
    for a in sys.argv[1:]:
        if a.startswith("--tier="):
            tier = a.split("=", 1)[1]
        if a.startswith("--only="):
            only = a.split("=", 1)[1]
    d = os.path.abspath(args[0])
    prop = args[1]
    checks = args[2:] or [prop]
    meta_p = os.path.join(d, "meta.json")
    meta = json.load(open(meta_p)) if os.path.exists(meta_p) else {}
    meta.setdefault("breaks_property", prop)
    assert sh("git -C %s status --porcelain --untracked-files=no" % REPO).stdout.strip() == "", "repo not clean"
    env = "PYTHONPATH=%s" % REPO
    r0 = sh("%s /venv/bin/python %s/demo.py" % (env, d), cwd="/tmp")
    meta["demo_exit_clean_tree"] = r0.returncode
    try:
        a = sh("git -C %s apply %s/patch.diff" % (REPO, d))
        if a.returncode != 0:
            print("patch does not apply:", a.stderr)
            meta["applies"] = False
            return
        meta["applies"] = True
        r1 = sh("%s /venv/bin/python %s/demo.py" % (env, d), cwd="/tmp")
        meta["demo_exit_with_change"] = r1.returncode
        meta["demo_output_with_change"] = (r1.stdout + r1.stderr)[-600:]
        t = sh("cd %s && /venv/bin/python -m pytest -q -p no:cacheprovider --timeout=900 "
               "--continue-on-collection-errors 2>&1 | tail -1" % REPO)
        meta["test_suite_with_change"] = t.stdout.strip()
        print("demo clean=%s with-change=%s; tests: %s" % (r0.returncode, r1.returncode, t.stdout.strip()))
        res = meta.setdefault("checks", {})
        for c in checks:
            t0 = time.time()
            cmd = "cd %s && VERIF_REPO=%s %s ./check %s --tier %s" % (
                VERIF, REPO, "" if REPO == "/repo" else "VERIF_EVIDENCE=/tmp/seed_evidence", c, tier) + (" --only '%s'" % only if only else "")
            r = sh(cmd)
            lines = [l for l in r.stdout.splitlines() if l.startswith("VIOLATION")]
            res["%s/%s%s%s" % (c, tier, ("/" + only) if only else "", "" if REPO == "/repo" else "@scratch")] = dict(
                exit=r.returncode, violation_lines=len(lines), first=(lines[0][:300] if lines else None),
                wall_s=round(time.time() - t0, 1), tail=r.stdout.strip().splitlines()[-1][:300] if r.stdout.strip() else "")
            print("  check %s: exit %s, %d VIOLATION lines, %.0fs  %s" % (c, r.returncode, len(lines), time.time() - t0,
                                                                        lines[0][:200] if lines else (r.stdout.strip().splitlines() or ["(no output)"])[-1][:200]))
    finally:
        sh("git -C %s checkout -- ." % REPO)
        json.dump(meta, open(meta_p, "w"), indent=1)
        assert sh("git -C %s status --porcelain --untracked-files=no" % REPO).stdout.strip() == ""


if __name__ == "__main__":
    main()
