"""dev helper: run one configuration of a property in-process with timing.
usage: probe1.py C01 '{"n1":2,"n2":3,"m":"sym","backend":"py"}' [obl_timeout_ms]"""
import json
import sys
import time
sys.path.insert(0, '/verif')
from vf import loader, engine as eng
from vf.runner import load_prop, load_known
import re
loader.init()
prop = load_prop(sys.argv[1])
cfg = json.loads(sys.argv[2])
cfg.setdefault('name', 'probe')
loader.set_mutations(cfg.get('mutations'))
loader.set_state(cfg.get('backend', 'py'), 'sym', cfg.get('fork', False))
E = eng.Engine(obl_timeout_ms=int(sys.argv[3]) if len(sys.argv) > 3 else 5000)
E.known = [k for k in load_known().get("findings", []) if k["property"] == sys.argv[1].upper()
           and re.search(k.get("config", ""), cfg["name"])]
eng.set_engine(E)
t = time.time()
E.explore(lambda e: prop.program(e, cfg))
print(E.stats(), 'wall %.1f' % (time.time() - t))
print('unknown', E.unknown[:5])
for c in E.cex[:5]:
    print('cex', c)
